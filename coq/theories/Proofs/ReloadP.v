(* ReloadP.v — the rest of the binary round trip: the record maps, the information content, the
   release version and the default category / modifier sets after from_bytes (as_bytes o). *)
From Coq Require Import Lia Relations Sorted Permutation.
From HpoV Require Import Gen.Consts Model.Base Model.Group Model.Onto Model.Query Model.Binary
  Proofs.GroupP Proofs.BaseP Proofs.ClosureP Proofs.AcyclicP Proofs.DistP Proofs.QgoodP Proofs.LinkP Proofs.C03W
  Proofs.SectionP Proofs.RoundTripP Proofs.AnnotP.

(* ---------------- the record maps ---------------- *)

Lemma load_record_records k o r o' : load_record k o r = Ok o' ->
  o_records k o' = an_put r (o_records k o) /\ (forall k', k' <> k -> o_records k' o' = o_records k' o) /\
  o_version o' = o_version o /\ o_cat o' = o_cat o /\ o_mod o' = o_mod o.
Proof.
  unfold load_record. intros H. apply bind_Ok' in H as [a [_ H]]. injection H as <-.
  split; [destruct k; reflexivity|]. split; [intros k' Hne; destruct k, k'; try reflexivity; congruence|].
  destruct k; auto.
Qed.

Lemma load_records_list k rs : forall o o', NoDup (map a_id rs) ->
  (forall r, In r rs -> ~ In (a_id r) (map a_id (o_records k o))) ->
  foldM (load_record k) rs o = Ok o' ->
  o_records k o' = o_records k o ++ rs /\ (forall k', k' <> k -> o_records k' o' = o_records k' o) /\
  o_version o' = o_version o /\ o_cat o' = o_cat o /\ o_mod o' = o_mod o.
Proof.
  induction rs as [|r rs IH]; intros o o' Nd Hfresh H; cbn [foldM] in H.
  - injection H as <-. rewrite app_nil_r. auto.
  - destruct (load_record k o r) as [o1| | |] eqn:E1; cbn [bind] in H; try discriminate.
    destruct (load_record_records k o r o1 E1) as (R1 & Ro1 & V1 & C1 & M1).
    inversion Nd as [|? ? Hr Nd']; subst.
    assert (an_put r (o_records k o) = o_records k o ++ [r]) as Eput.
    { unfold an_put. destruct (an_find (a_id r) (o_records k o)) as [x|] eqn:Ef; [|reflexivity].
      exfalso. apply (Hfresh r (or_introl eq_refl)). unfold an_find in Ef. apply find_by_Some in Ef as [Hin Hid].
      rewrite <- Hid. apply in_map, Hin. }
    destruct (IH o1 o' Nd') as (R' & Ro' & V' & C' & M'); [|exact H|].
    + intros x Hx Hin. rewrite R1, Eput, map_app, in_app_iff in Hin. destruct Hin as [Hin|[Hin|[]]].
      * apply (Hfresh x (or_intror Hx) Hin).
      * apply Hr. cbn [map a_id] in Hin. rewrite Hin. apply in_map, Hx.
    + split; [rewrite R', R1, Eput, <- app_assoc; reflexivity|]. split; [intros k' Hne; rewrite (Ro' k' Hne); apply (Ro1 k' Hne)|].
      repeat split; congruence.
Qed.

Lemma raw_ids k l : map a_id (map (raw_record k) l) = map a_id l.
Proof. rewrite map_map. apply map_ext. intros r. apply raw_record_fields. Qed.

(* THE RECORD MAPS AFTER A RELOAD: exactly the records written (names of genes cut at the format's
   limit), in the order in which the file holds them; the release version is kept *)
Theorem rebuild_records icf order o o'' : (forall l, Permutation (order l) l) ->
  (forall k, NoDup (map a_id (o_records k o))) -> rebuild icf order o = Ok o'' ->
  (forall k, o_records k o'' = map (raw_record k) (order (o_records k o))) /\ o_version o'' = o_version o.
Proof.
  intros Hp Nd H. unfold rebuild in H.
  apply bind_Ok' in H as [a1 [H1 H]]. apply bind_Ok' in H as [a2 [H2 H]]. apply bind_Ok' in H as [a3 [H3 H]].
  apply bind_Ok' in H as [o4 [H4 H]]. apply bind_Ok' in H as [o5 [H5 H]]. apply bind_Ok' in H as [o6 [H6 H]].
  apply bind_Ok' in H as [o7 [H7 H8]].
  assert (forall k, NoDup (map a_id (map (raw_record k) (order (o_records k o))))) as NdR.
  { intros k. rewrite raw_ids. apply (Permutation_NoDup (Permutation_sym (Permutation_map a_id (Hp (o_records k o)))) (Nd k)). }
  set (o3 := set_arena a3 (set_version (o_version o) onto_new)) in *.
  destruct (load_records_list KGene _ o3 o4 (NdR KGene) (fun r _ Hin => Hin) H4) as (R4 & Ro4 & V4 & _).
  destruct (load_records_list KOmim _ o4 o5 (NdR KOmim)) as (R5 & Ro5 & V5 & _); [|exact H5|].
  { intros r _ Hin. rewrite (Ro4 KOmim ltac:(discriminate)) in Hin. destruct Hin. }
  destruct (load_records_list KOrpha _ o5 o6 (NdR KOrpha)) as (R6 & Ro6 & V6 & _); [|exact H6|].
  { intros r _ Hin. rewrite (Ro5 KOrpha ltac:(discriminate)), (Ro4 KOrpha ltac:(discriminate)) in Hin. destruct Hin. }
  destruct (calculate_ic_spec icf o6 o7 H7) as (R7 & V7 & _).
  assert ((forall k, o_records k o'' = o_records k o7) /\ o_version o'' = o_version o7) as [R8 V8].
  { unfold b_build_with_defaults, set_default_categories, set_default_modifier in H8.
    destruct (o_get ROOT_ID_CAT (b_build_minimal o7)); [|discriminate].
    destruct (o_get PHENOTYPE_ID (b_build_minimal o7)); [|discriminate]. cbn [bind] in H8.
    match type of H8 with context [o_get ROOT_ID ?x] => destruct (o_get ROOT_ID x) end; [|discriminate].
    injection H8 as <-. split; [intros k; destruct k; reflexivity|reflexivity]. }
  split.
  - intros k. rewrite R8, R7. destruct k.
    + rewrite (Ro6 KGene ltac:(discriminate)), (Ro5 KGene ltac:(discriminate)), R4. reflexivity.
    + rewrite (Ro6 KOmim ltac:(discriminate)), R5, (Ro4 KOmim ltac:(discriminate)). reflexivity.
    + rewrite R6, (Ro5 KOrpha ltac:(discriminate)), (Ro4 KOrpha ltac:(discriminate)). reflexivity.
  - rewrite V8, V7, V6, V5, V4. reflexivity.
Qed.

(* ---------------- information content ---------------- *)

Definition ic_ok (icf : N -> N -> res N) (o : onto) : Prop :=
  forall t, In t (ar_terms (o_arena o)) -> forall k, icf (Nlen (o_records k o)) (Nlen (t_annots k t)) = Ok (ic_of k (t_ic t)).

Lemma ic_of_ext (a b : N * N * N) : (forall k, ic_of k a = ic_of k b) -> a = b.
Proof.
  destruct a as [[g m] r], b as [[g' m'] r']. intros H.
  pose proof (H KGene) as H1. pose proof (H KOmim) as H2. pose proof (H KOrpha) as H3. cbn in *. congruence.
Qed.

Lemma Nlen_perm {A} (l l' : list A) : Permutation l l' -> Nlen l = Nlen l'.
Proof. intros P. unfold Nlen. rewrite (Permutation_length P). reflexivity. Qed.

Lemma perm_In (order : list annot -> list annot) : (forall l, Permutation (order l) l) -> forall l r, In r (order l) <-> In r l.
Proof. intros Hp l r. split; apply Permutation_in; [apply Hp|apply Permutation_sym, Hp]. Qed.

(* THE INFORMATION CONTENT AFTER A RELOAD (computed with the same calculate function) *)
Theorem rebuild_keeps_ic icf order o o'' : src_ok o -> acyclic (o_arena o) -> ann_ok o -> ic_ok icf o ->
  (forall l, Permutation (order l) l) -> (forall k, NoDup (map a_id (o_records k o))) ->
  rebuild icf order o = Ok o'' ->
  Forall2 (fun t t'' => t_ic t'' = t_ic t) (ar_terms (o_arena o)) (ar_terms (o_arena o'')).
Proof.
  intros S Ac A Ic Hp Nd H.
  pose proof (rebuild_keeps_annotations icf order o o'' S Ac A (perm_In order Hp) H) as Ka.
  destruct (rebuild_records icf order o o'' Hp Nd H) as [Rec _].
  eapply Forall2_impl_In; [|exact Ka]. intros t t'' Ht Ht'' Ea.
  (* what calculate_information_content wrote into t'' *)
  assert (forall k, icf (Nlen (o_records k o'')) (Nlen (t_annots k t'')) = Ok (ic_of k (t_ic t''))) as Hic.
  { unfold rebuild in H.
    apply bind_Ok' in H as [a1 [H1 H]]. apply bind_Ok' in H as [a2 [H2 H]]. apply bind_Ok' in H as [a3 [H3 H]].
    apply bind_Ok' in H as [o4 [H4 H]]. apply bind_Ok' in H as [o5 [H5 H]]. apply bind_Ok' in H as [o6 [H6 H]].
    apply bind_Ok' in H as [o7 [H7 H8]].
    destruct (calculate_ic_spec icf o6 o7 H7) as (R7 & _ & _ & _ & _ & F7).
    rewrite (build_with_defaults_arena o7 o'' H8) in Ht''.
    destruct (Forall2_In_r _ _ _ t'' F7 Ht'') as [t6 [Ht6 [Et Hk]]].
    assert (forall k, o_records k o'' = o_records k o7) as R8.
    { unfold b_build_with_defaults, set_default_categories, set_default_modifier in H8.
      destruct (o_get ROOT_ID_CAT (b_build_minimal o7)); [|discriminate].
      destruct (o_get PHENOTYPE_ID (b_build_minimal o7)); [|discriminate]. cbn [bind] in H8.
      match type of H8 with context [o_get ROOT_ID ?x] => destruct (o_get ROOT_ID x) end; [|discriminate].
      injection H8 as <-. intros k; destruct k; reflexivity. }
    intros k. rewrite R8, R7. rewrite Et at 1. rewrite annots_set_ic. apply Hk. }
  apply ic_of_ext. intros k. specialize (Hic k). rewrite (Ea k), (Rec k) in Hic.
  assert (Nlen (map (raw_record k) (order (o_records k o))) = Nlen (o_records k o)) as El.
  { unfold Nlen. rewrite map_length. f_equal. apply Permutation_length, Hp. }
  rewrite El, (Ic t Ht k) in Hic. injection Hic as ->. reflexivity.
Qed.

(* ---------------- default categories and modifiers ---------------- *)

Lemma find_kept id l l' : Forall2 term_kept l l' ->
  match find_by t_id id l, find_by t_id id l' with
  | Some t, Some t' => term_kept t t'
  | None, None => True
  | _, _ => False
  end.
Proof.
  induction 1 as [|t t' l l' K _ IH]; cbn [find_by]; [exact I|].
  destruct K as (E & Rest). rewrite E. destruct (t_id t =? id); [split; assumption|exact IH].
Qed.

Lemma get_kept id o a' : Forall2 term_kept (ar_terms (o_arena o)) (ar_terms a') ->
  match ar_get id (o_arena o), ar_get id a' with
  | Some t, Some t' => term_kept t t'
  | None, None => True
  | _, _ => False
  end.
Proof. intros K. unfold ar_get, ar_find. destruct (MAX_HPO_ID <=? id); [exact I|apply find_kept, K]. Qed.

(* an ontology built with build_with_defaults reloads with the same category and modifier sets *)
Theorem rebuild_keeps_defaults icf order o o'' : src_ok o -> b_build_with_defaults o = Ok o ->
  rebuild icf order o = Ok o'' -> o_cat o'' = o_cat o /\ o_mod o'' = o_mod o.
Proof.
  intros S Fix H. pose proof (rebuild_keeps_terms icf order o o'' S H) as K.
  unfold rebuild in H.
  apply bind_Ok' in H as [a1 [_ H]]. apply bind_Ok' in H as [a2 [_ H]]. apply bind_Ok' in H as [a3 [_ H]].
  apply bind_Ok' in H as [o4 [_ H]]. apply bind_Ok' in H as [o5 [_ H]]. apply bind_Ok' in H as [o6 [_ H]].
  apply bind_Ok' in H as [o7 [_ H8]].
  rewrite (build_with_defaults_arena o7 o'' H8) in K.
  unfold b_build_with_defaults, set_default_categories, set_default_modifier, o_get in H8, Fix.
  change (o_arena (b_build_minimal o7)) with (o_arena o7) in H8. change (o_arena (b_build_minimal o)) with (o_arena o) in Fix.
  pose proof (get_kept ROOT_ID_CAT o _ K) as G1. pose proof (get_kept PHENOTYPE_ID o _ K) as G2. pose proof (get_kept ROOT_ID o _ K) as G3.
  destruct (ar_get ROOT_ID_CAT (o_arena o)) as [r|]; [|discriminate].
  destruct (ar_get PHENOTYPE_ID (o_arena o)) as [p|]; [|discriminate]. cbn [bind] in Fix.
  destruct (ar_get ROOT_ID_CAT (o_arena o7)) as [r7|]; [|destruct G1].
  destruct (ar_get PHENOTYPE_ID (o_arena o7)) as [p7|]; [|destruct G2]. cbn [bind] in H8.
  change (o_arena (set_cat ?g (b_build_minimal o7))) with (o_arena o7) in H8.
  change (o_arena (set_cat ?g (b_build_minimal o))) with (o_arena o) in Fix.
  destruct (ar_get ROOT_ID (o_arena o)) as [r1|]; [|discriminate].
  destruct (ar_get ROOT_ID (o_arena o7)) as [r17|]; [|destruct G3].
  injection H8 as <-. 
  destruct G1 as (_ & _ & _ & _ & _ & C1 & _). destruct G2 as (_ & _ & _ & _ & _ & C2 & _). destruct G3 as (_ & _ & _ & _ & _ & C3 & _).
  cbn [o_cat o_mod set_mod set_cat]. rewrite C1, C2, C3.
  injection Fix as Fix.
  assert (o_cat o = g_from_list (filter neqb_pheno (t_children r) ++ t_children p)) as Ec.
  { pose proof (f_equal o_cat Fix) as Fc. cbn [o_cat set_mod set_cat] in Fc. symmetry. exact Fc. }
  assert (o_mod o = g_from_list (filter neqb_pheno (t_children r1))) as Em.
  { pose proof (f_equal o_mod Fix) as Fm. cbn [o_mod set_mod set_cat] in Fm. symmetry. exact Fm. }
  rewrite Ec, Em.
  auto.
Qed.
