(* C14P.v — what spec_C14's "on a shortest chain" clause means *)
From Coq Require Import Lia.
From HpoV Require Import Model.Base Model.Group Spec.Sets Proofs.GroupP Proofs.SetsP Proofs.BaseP
  Model.Onto Model.Query Model.Dump Run.World Run.C01 Run.C11 Run.C14 Proofs.C11P.

Lemma optN_eqb_eq a b : optN_eqb a b = true -> a = b.
Proof. destruct a, b; cbn; try discriminate; [|reflexivity]. intros H. apply N.eqb_eq in H. congruence. Qed.

(* a retained term accepted by the clause lies on a chain of parent links from a leaf to root whose
   length is the shortest possible *)
Theorem on_shortest_chain ts n l t root dl :
  sd n ts l root = Some dl ->
  optN_eqb (opt_add (sd n ts l t) (sd n ts t root)) (Some dl) = true ->
  exists c1 c2,
    is_chain ts l c1 = true /\ last c1 l = t /\
    is_chain ts t c2 = true /\ last c2 t = root /\
    Nlen c1 + Nlen c2 = dl /\
    (forall c, is_chain ts l c = true -> last c l = root -> (length c <= n)%nat -> dl <= Nlen c).
Proof.
  intros Hd H. apply optN_eqb_eq in H.
  destruct (sd n ts l t) as [d1|] eqn:E1; [|discriminate].
  destruct (sd n ts t root) as [d2|] eqn:E2; [|discriminate].
  cbn [opt_add] in H. injection H as H.
  destruct (sd_sound _ _ _ _ _ E1) as [c1 [Hc1 [Hl1 Hn1]]].
  destruct (sd_sound _ _ _ _ _ E2) as [c2 [Hc2 [Hl2 Hn2]]].
  exists c1, c2. repeat split; auto; [lia|].
  intros c Hc Hl Hlen. destruct (sd_minimal ts root c n l Hc Hl Hlen) as [d [Hd' Hle]].
  rewrite Hd in Hd'. injection Hd' as <-. exact Hle.
Qed.
