(* C03P.v — information content: the documented formula over the reals, and the guards of the
   f32 implementation (Model/IC.v) *)
From Coq Require Import Reals Lra Lia.
From HpoV Require Import Model.Base Model.F32 Model.IC.

Open Scope R_scope.

Lemma ln_le x y : 0 < x -> x <= y -> ln x <= ln y.
Proof.
  intros Hx [Hlt|Heq]; [left; apply ln_increasing; assumption|right; rewrite Heq; reflexivity].
Qed.

(* the documented formula *)
Definition icR (n total : nat) : R :=
  match n, total with
  | O, _ => 0
  | _, O => 0
  | _, _ => - ln (INR n / INR total)
  end.

Lemma icR_nonneg n total : (n <= total)%nat -> 0 <= icR n total.
Proof.
  intros Hle. unfold icR. destruct n as [|n]; [lra|]. destruct total as [|t]; [lra|].
  assert (0 < INR (S n)) as Hn by (apply lt_0_INR; lia).
  assert (0 < INR (S t)) as Ht by (apply lt_0_INR; lia).
  assert (INR (S n) <= INR (S t)) as Hle' by (apply le_INR; lia).
  assert (INR (S n) / INR (S t) <= 1) as H1.
  { apply (Rmult_le_reg_r (INR (S t))); [exact Ht|]. unfold Rdiv.
    rewrite Rmult_assoc, Rinv_l by lra. lra. }
  assert (0 < INR (S n) / INR (S t)) as H0 by (apply Rdiv_lt_0_compat; assumption).
  pose proof (ln_le _ _ H0 H1) as H. rewrite ln_1 in H. lra.
Qed.

(* more annotations, less information: antitone in n for fixed N *)
Lemma icR_antitone n1 n2 total : (0 < n1)%nat -> (n1 <= n2)%nat -> icR n2 total <= icR n1 total.
Proof.
  intros H0 Hle. unfold icR. destruct n1 as [|n1]; [lia|]. destruct n2 as [|n2]; [lia|].
  destruct total as [|t]; [lra|].
  assert (0 < INR (S n1)) as Hn1 by (apply lt_0_INR; lia).
  assert (0 < INR (S t)) as Ht by (apply lt_0_INR; lia).
  assert (INR (S n1) <= INR (S n2)) as Hle' by (apply le_INR; lia).
  assert (0 < INR (S n1) / INR (S t)) as Hq by (apply Rdiv_lt_0_compat; assumption).
  assert (INR (S n1) / INR (S t) <= INR (S n2) / INR (S t)) as Hqq.
  { unfold Rdiv. apply Rmult_le_compat_r; [left; apply Rinv_0_lt_compat; exact Ht|exact Hle']. }
  pose proof (ln_le _ _ Hq Hqq). lra.
Qed.

Lemma icR_zero n total : (n = 0 \/ total = 0)%nat -> icR n total = 0.
Proof. intros [-> | ->]; [reflexivity|destruct n; reflexivity]. Qed.

Lemma icR_all n : icR n n = 0.
Proof.
  destruct n as [|n]; [reflexivity|]. unfold icR.
  assert (0 < INR (S n)) by (apply lt_0_INR; lia).
  unfold Rdiv. rewrite Rinv_r by lra. rewrite ln_1. lra.
Qed.

Close Scope R_scope.
Open Scope N_scope.

(* guards of the f32 implementation *)
Lemma ic32_zero fln total current : total = 0 \/ current = 0 -> ic32 fln total current = Ok 0.
Proof. intros [-> | ->]; unfold ic32; cbn; [reflexivity|]. rewrite orb_true_r. reflexivity. Qed.

Lemma ic32_too_large fln total current : total <> 0 -> current <> 0 ->
  U16_MAX < total \/ U16_MAX < current -> ic32 fln total current = Err TryFromIntError.
Proof.
  intros Ht Hc H. unfold ic32.
  destruct (N.eqb_spec total 0); [congruence|]. destruct (N.eqb_spec current 0); [congruence|].
  cbn [orb]. destruct (N.ltb_spec U16_MAX total); [reflexivity|].
  destruct (N.ltb_spec U16_MAX current); [reflexivity|lia].
Qed.

(* otherwise the value is -1 * fln(current/total), with the division and the multiplication
   rounded to nearest-even in binary32 *)
Lemma ic32_formula fln total current : total <> 0 -> current <> 0 ->
  total <= U16_MAX -> current <= U16_MAX ->
  ic32 fln total current =
    match fln (to_bits (fdiv (f_of_N current) (f_of_N total))) with
    | Some r => Ok (to_bits (fmul (of_bits r) f_mone))
    | None => Err OracleMissing
    end.
Proof.
  intros Ht Hc H1 H2. unfold ic32.
  destruct (N.eqb_spec total 0); [congruence|]. destruct (N.eqb_spec current 0); [congruence|].
  cbn [orb]. destruct (N.ltb_spec U16_MAX total); [lia|].
  destruct (N.ltb_spec U16_MAX current); [lia|]. reflexivity.
Qed.
