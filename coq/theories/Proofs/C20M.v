(* C20M.v — the transcription meets the executable statement of C20 on EVERY input: for every list of ids
   below 2^32 and every list of texts, spec_C20 c (run_C20 c) = true.  (The check evaluates the same statement
   on the crate's observation; this is the model's half, for all inputs instead of the generated ones.) *)
From Coq Require Import ZArith Lia ZifyN ZifyNat ZifyBool.
From HpoV Require Import Gen.Consts Model.Base Model.Binary Model.TermId Spec.Sets Run.C20 Proofs.BinaryP Proofs.SetsP Proofs.C20P.

Lemma fold_dval l : forall acc, fold_left (fun acc d => acc * 10 + (d - 48)) l acc = dval l acc.
Proof. induction l as [|d t IH]; intros acc; cbn [fold_left dval]; [reflexivity|apply IH]. Qed.

Lemma value_of_dval l : value_of l = dval l 0.
Proof. apply fold_dval. Qed.

Lemma is_digit_forall l : forallb Run.C20.is_digit l = true <-> Forall C20P.is_digit l.
Proof.
  rewrite forallb_forall, Forall_forall. unfold Run.C20.is_digit, C20P.is_digit.
  split; intros H x Hx; specialize (H x Hx); lia.
Qed.

Lemma literal_nonempty l : l <> [] ->
  (if forallb Run.C20.is_digit l && (value_of l <=? U32_MAX) then Some (value_of l) else None) = parse_digits l 0.
Proof.
  intros Hne. destruct (forallb Run.C20.is_digit l && (value_of l <=? U32_MAX)) eqn:E.
  - apply andb_prop in E as [E1 E2]. symmetry. apply parse_digits_spec. split; [apply is_digit_forall, E1|].
    split; [apply value_of_dval|]. intros _. apply N.leb_le, E2.
  - destruct (parse_digits l 0) as [n|] eqn:Ep; [|reflexivity]. exfalso.
    apply parse_digits_spec in Ep as (D & V & B). specialize (B Hne).
    assert (forallb Run.C20.is_digit l && (value_of l <=? U32_MAX) = true); [|congruence].
    apply andb_true_intro. split; [apply is_digit_forall, D|]. rewrite value_of_dval, <- V. apply N.leb_le, B.
Qed.

Lemma literal_value_is_parse_u32 s : literal_value s = parse_u32 s.
Proof.
  unfold literal_value, parse_u32. destruct s as [|d t]; [reflexivity|].
  destruct (N.eq_dec d 43) as [->|Hd].
  - destruct t as [|d' t']; [reflexivity|]. apply literal_nonempty. discriminate.
  - assert (match d with 43 => t | _ => d :: t end = d :: t) as ->.
    { destruct d as [|p]; [reflexivity|]. do 6 (destruct p as [p|p|]; try reflexivity). exfalso. apply Hd. reflexivity. }
    rewrite (literal_nonempty (d :: t)) by discriminate.
    destruct d as [|p]; [reflexivity|]. do 6 (destruct p as [p|p|]; try reflexivity). exfalso. apply Hd. reflexivity.
Qed.

Theorem expected_parse_is_parse_id s : expected_parse s = encR (parse_id s).
Proof.
  unfold expected_parse, parse_id. change ID_MIN_LEN with 4. change ID_PREFIX_LEN with 3. change (N.to_nat 3) with 3%nat.
  destruct (Nlen s <? 4); [reflexivity|]. destruct (negb (is_char_boundary s 3)); [reflexivity|].
  rewrite literal_value_is_parse_u32. destruct (parse_u32 (skipn 3 s)); reflexivity.
Qed.

Lemma spec_ids_model ids : Forall (fun n => n <= U32_MAX) ids ->
  spec_ids ids (concat (map (fun n => [show n; encR (parse_id (show n)); id_to_be n; optN (id_of_be (id_to_be n))]) ids)) = true.
Proof.
  induction 1 as [|n ids Hn _ IH]; [reflexivity|]. cbn [map concat app spec_ids]. rewrite IH, Bool.andb_true_r.
  rewrite (parse_show n Hn), (be_bytes_roundtrip n Hn). cbn [encR optN]. unfold id_to_be.
  rewrite (list_eqb_refl [n]), (list_eqb_refl (to_be32 n)), !Bool.andb_true_r.
  destruct (show_padded_decimal n Hn) as (ds & Es & Dd & Dv & _).
  assert (ds = digits (width n) n) as Eds by (unfold show in Es; change ID_DISPLAY_PREFIX with [72; 80; 58] in Es; apply app_inv_head in Es; symmetry; exact Es).
  rewrite Es. cbn [app firstn skipn]. rewrite (list_eqb_refl [72; 80; 58]). cbn [andb].
  assert (forallb Run.C20.is_digit ds = true) as -> by (apply is_digit_forall, Dd). cbn [andb].
  rewrite value_of_dval, Dv, N.eqb_refl. cbn [andb].
  apply N.eqb_eq. rewrite <- Eds. unfold Nlen. cbn [length].
  pose proof (digits_length (width n) n) as L. rewrite <- Eds in L. pose proof (width_ge n). lia.
Qed.

Theorem spec_C20_model k ids texts : Forall (fun n => n <= U32_MAX) ids ->
  spec_C20 (k, ids, texts) (run_C20 (k, ids, texts)) = true.
Proof.
  intros Hids. unfold spec_C20, run_C20. destruct k as [|p].
  - apply spec_ids_model, Hids.
  - destruct p as [p|p|]; try reflexivity.
    unfold Nlen. rewrite map_length, N.eqb_refl. cbn [andb]. apply forallb_forall. intros [r s] Hin.
    cbn [fst snd]. apply list_eqb_eq.
    assert (forall l, In (r, s) (combine (map (fun s0 => encR (parse_id s0)) l) l) -> r = expected_parse s) as K.
    { induction l as [|x l IH]; cbn [map combine]; [intros []|]. intros [E|H]; [injection E as <- <-; symmetry; apply expected_parse_is_parse_id|apply IH, H]. }
    apply (K texts Hin).
Qed.
