(* DendroP.v — the clustering loop returns a dendrogram (C17, first half of the statement), for every
   number type, distance function and method: after a successful run on n >= 1 sets
   - every node index 0 .. 2n-3 occurs exactly once as lhs or rhs of a merge, the last node (2n-2)
     never: each input and each intermediate cluster is merged exactly once, the k-th merge being
     node n + k;
   - every merge has lhs < rhs < its own index, and its size is the sum of the sizes of its parts;
   - the sizes of the live nodes always add up to n, so the last merge has size n;
   - Linkage::indicies (the leaf order) is a permutation of 0 .. n-1. *)
From Coq Require Import Lia Arith PeanoNat List Permutation.
From HpoV Require Import Model.Base Model.Group Model.Linkage Proofs.BaseP Proofs.DistP Proofs.QgoodP Proofs.C17P Proofs.C04P Proofs.LinkageP Proofs.BuilderAnnotP.
Import ListNotations.
Local Open Scope nat_scope.

Section D.
  Variable F : Type.
  Variable flt fgt : F -> F -> bool.
  Variable mean : F -> F -> F.
  Variable dist : group -> group -> F.

  Notation lstate := (lstate F).
  Notation LI := (LI F).
  Notation round_of := (round_of F flt fgt mean dist).

  Definition c_lhs (c : cluster F) : nat := fst (fst (fst c)).
  Definition c_rhs (c : cluster F) : nat := snd (fst (fst c)).
  Definition c_size (c : cluster F) : nat := snd c.
  Definition used (cl : list (cluster F)) : list nat := flat_map (fun c => [c_lhs c; c_rhs c]) cl.

  Lemma used_app cl c : used (cl ++ [c]) = used cl ++ [c_lhs c; c_rhs c].
  Proof. unfold used. rewrite flat_map_app. cbn [flat_map]. rewrite app_nil_r. reflexivity. Qed.

  (* the sets after one round: the two merged slots emptied, one new live slot appended *)
  Lemma round_sets mt s s' : LI s -> round_of mt s = Ok (Some s') ->
    exists i j d y, closest F flt (l_dm F s) = Some (i, j, d) /\
      l_sets F s' = set_nth j None (set_nth i None (l_sets F s)) ++ [Some y].
  Proof.
    intros I H. destruct mt; cbn [LinkageP.round_of] in H.
    - unfold union_round in H. destruct (closest F flt (l_dm F s)) as [[[i j] d]|] eqn:Ec; [|discriminate].
      destruct (new_cluster F s i j d) as [cl| | |]; cbn [bind] in H; try discriminate.
      destruct (nth_error (l_sets F s) i) as [[ga|]|]; try discriminate. destruct (nth_error (l_sets F s) j) as [[gb|]|]; try discriminate.
      destruct (comb_last _) as [pairs| | |]; cbn [bind] in H; try discriminate.
      destruct (foldM _ _ _) as [r| | |]; cbn [bind] in H; try discriminate. injection H as <-.
      exists i, j, d, (set_extend ga gb). split; reflexivity.
    - unfold arith_round in H. destruct (closest F flt (l_dm F s)) as [[[i j] d]|] eqn:Ec; [|discriminate].
      destruct (closest_live F flt s i j d I Ec) as (_ & [gi Hgi] & _).
      destruct (new_cluster F s i j d) as [cl| | |]; cbn [bind] in H; try discriminate. destruct (negb _); [discriminate|].
      destruct (foldM _ _ _) as [dm2| | |]; cbn [bind] in H; try discriminate. injection H as <-.
      exists i, j, d, gi. cbn [l_sets]. rewrite Hgi. split; reflexivity.
    - unfold arith_round in H. destruct (closest F flt (l_dm F s)) as [[[i j] d]|] eqn:Ec; [|discriminate].
      destruct (closest_live F flt s i j d I Ec) as (_ & [gi Hgi] & _).
      destruct (new_cluster F s i j d) as [cl| | |]; cbn [bind] in H; try discriminate. destruct (negb _); [discriminate|].
      destruct (foldM _ _ _) as [dm2| | |]; cbn [bind] in H; try discriminate. injection H as <-.
      exists i, j, d, gi. cbn [l_sets]. rewrite Hgi. split; reflexivity.
    - unfold arith_round in H. destruct (closest F flt (l_dm F s)) as [[[i j] d]|] eqn:Ec; [|discriminate].
      destruct (closest_live F flt s i j d I Ec) as (_ & [gi Hgi] & _).
      destruct (new_cluster F s i j d) as [cl| | |]; cbn [bind] in H; try discriminate. destruct (negb _); [discriminate|].
      destruct (foldM _ _ _) as [dm2| | |]; cbn [bind] in H; try discriminate. injection H as <-.
      exists i, j, d, gi. cbn [l_sets]. rewrite Hgi. split; reflexivity.
  Qed.

  Lemma round_live mt s s' i j d : LI s -> round_of mt s = Ok (Some s') -> closest F flt (l_dm F s) = Some (i, j, d) ->
    length (l_sets F s') = S (length (l_sets F s)) /\
    forall x, live (l_sets F s') x <-> (live (l_sets F s) x /\ x <> i /\ x <> j) \/ x = length (l_sets F s).
  Proof.
    intros I H Ec. destruct (round_sets mt s s' I H) as (i' & j' & d' & y & Ec' & Es). rewrite Ec in Ec'. injection Ec' as <- <- <-.
    rewrite Es. split; [rewrite app_length, !set_nth_length; cbn [length]; lia|].
    intros x. rewrite live_app_single, !set_nth_length, !live_set_none. split.
    - intros [[[H1 H2] H3]|[E _]]; [left; auto|right; exact E].
    - intros [(H1 & H2 & H3)|E]; [left; auto|right; split; [exact E|eauto]].
  Qed.

  (* ---------------- the dendrogram invariant ---------------- *)

  Definition liveb {A} (sets : list (option A)) (x : nat) : bool :=
    match nth_error sets x with Some (Some _) => true | _ => false end.

  Lemma liveb_spec {A} (sets : list (option A)) x : liveb sets x = true <-> live sets x.
  Proof.
    unfold liveb, live. destruct (nth_error sets x) as [[g|]|]; split; intros H; try discriminate; eauto;
      destruct H as [g' H]; discriminate.
  Qed.

  Definition szf (n : nat) (cl : list (cluster F)) (x : nat) : nat :=
    match size_of F n cl x with Ok v => v | _ => 0 end.

  Definition wsum (s : lstate) : nat :=
    list_sum (map (szf (l_n F s) (l_clusters F s)) (filter (liveb (l_sets F s)) (seq 0 (length (l_sets F s))))).

  Record DI (s : lstate) : Prop := {
    di_nodup : NoDup (used (l_clusters F s));
    di_lt : forall x, In x (used (l_clusters F s)) -> x < length (l_sets F s);
    di_live : forall x, live (l_sets F s) x <-> x < length (l_sets F s) /\ ~ In x (used (l_clusters F s));
    di_shape : forall k c, nth_error (l_clusters F s) k = Some c ->
      c_lhs c < c_rhs c /\ c_rhs c < l_n F s + k /\
      c_size c = szf (l_n F s) (firstn k (l_clusters F s)) (c_lhs c) + szf (l_n F s) (firstn k (l_clusters F s)) (c_rhs c);
    di_sum : wsum s = l_n F s
  }.

  Lemma sum_remove (f : nat -> nat) (P : nat -> bool) i : forall l, NoDup l -> In i l -> P i = true ->
    list_sum (map f (filter P l)) = f i + list_sum (map f (filter (fun x => P x && negb (x =? i)) l)).
  Proof.
    induction l as [|y l IH]; intros Nd Hin Hp; [destruct Hin|]. inversion Nd as [|? ? Hy Nd']; subst.
    cbn [filter]. destruct Hin as [->|Hin].
    - rewrite Hp, Nat.eqb_refl. cbn [andb negb map]. change (list_sum (f i :: ?t)) with (f i + list_sum t).
      assert (filter P l = filter (fun x => P x && negb (x =? i)) l) as <-; [|reflexivity].
      apply filter_ext_in. intros x Hx. destruct (Nat.eqb_spec x i) as [->|_]; [contradiction|]. rewrite andb_true_r. reflexivity.
    - destruct (Nat.eqb_spec y i) as [->|Hne]; [contradiction|]. rewrite andb_true_r.
      assert (forall x t, list_sum (x :: t) = x + list_sum t) as LS by reflexivity.
      destruct (P y); cbn [map]; rewrite ?LS, (IH Nd' Hin Hp); lia.
  Qed.

  Lemma szf_old n cl c x : x < n + length cl -> szf n (cl ++ [c]) x = szf n cl x.
  Proof.
    intros H. unfold szf, size_of. destruct (Nat.ltb_spec x n); [reflexivity|].
    rewrite nth_error_app1 by lia. reflexivity.
  Qed.

  Lemma szf_new n cl c : szf n (cl ++ [c]) (n + length cl) = c_size c.
  Proof.
    unfold szf, size_of. destruct (Nat.ltb_spec (n + length cl) n); [lia|].
    rewrite nth_error_app2 by lia. replace (n + length cl - n - length cl) with 0 by lia. reflexivity.
  Qed.

  Lemma DI_step mt s s' : LI s -> DI s -> round_of mt s = Ok (Some s') -> DI s'.
  Proof.
    intros I D H.
    destruct (round_spec F flt fgt mean dist mt s s' I H) as (i & j & d & M & I').
    destruct M as (Ec & Hij & Li & Lj & (a & b & Sa & Sb & Ecl) & En).
    destruct (round_live mt s s' i j d I H Ec) as [El Hl].
    pose proof (li_len F s I) as Len.
    pose proof (proj1 (di_live s D i) Li) as [Hi Ui]. pose proof (proj1 (di_live s D j) Lj) as [Hj Uj].
    assert (szf (l_n F s) (l_clusters F s) i = a) as Za by (unfold szf; rewrite Sa; reflexivity).
    assert (szf (l_n F s) (l_clusters F s) j = b) as Zb by (unfold szf; rewrite Sb; reflexivity).
    set (c := (i, j, d, a + b) : cluster F) in *.
    constructor; rewrite ?Ecl, ?En, ?El.
    - rewrite used_app. cbn [c_lhs c_rhs c fst snd]. change [i; j] with ([i] ++ [j]). rewrite app_assoc.
      apply NoDup_app_single; [apply NoDup_app_single; [apply (di_nodup s D)|exact Ui]|].
      intros Hin. apply in_app_or in Hin as [Hin|[E|[]]]; [contradiction|lia].
    - intros x Hx. rewrite used_app in Hx. apply in_app_or in Hx as [Hx|[<-|[<-|[]]]]; [pose proof (di_lt s D x Hx)|cbn|cbn]; lia.
    - intros x. rewrite (Hl x), used_app, in_app_iff. cbn [c_lhs c_rhs c fst snd In]. split.
      + intros [(Lx & Hxi & Hxj)| -> ].
        * apply (di_live s D x) in Lx as [Hx Ux]. split; [lia|]. intros [U|[E|[E|[]]]]; [contradiction|congruence|congruence].
        * split; [lia|]. intros [U|[E|[E|[]]]]; [pose proof (di_lt s D _ U)|idtac|idtac]; lia.
      + intros [Hx Ux]. destruct (Nat.eq_dec x (length (l_sets F s))) as [->|Hne]; [right; reflexivity|left].
        split; [apply (di_live s D x); split; [lia|tauto]|]. split; intros ->; apply Ux; right; cbn; auto.
    - intros k c0 Hk. destruct (Nat.lt_ge_cases k (length (l_clusters F s))) as [Hlt|Hge].
      + rewrite nth_error_app1 in Hk by exact Hlt. rewrite firstn_app. replace (k - length (l_clusters F s)) with 0 by lia.
        rewrite firstn_O, app_nil_r. apply (di_shape s D k c0 Hk).
      + assert (k = length (l_clusters F s)) as ->.
        { destruct (Nat.lt_ge_cases k (length (l_clusters F s) + 1)) as [H0|H0]; [lia|exfalso].
          rewrite nth_error_app2 in Hk by lia.
          destruct (k - length (l_clusters F s)) as [|[|m]] eqn:Em; cbn [nth_error] in Hk; try discriminate. lia. }
        rewrite nth_error_app2, Nat.sub_diag in Hk by lia. injection Hk as <-.
        rewrite firstn_app, Nat.sub_diag, firstn_O, app_nil_r, firstn_all. cbn [c_lhs c_rhs c_size c fst snd].
        rewrite Za, Zb. split; [exact Hij|]. split; [lia|reflexivity].
    - unfold wsum. rewrite Ecl, En, El. rewrite seq_S, filter_app, map_app, list_sum_app. cbn [plus filter].
      assert (liveb (l_sets F s') (length (l_sets F s)) = true) as -> by (apply liveb_spec, Hl; right; reflexivity).
      cbn [map].
      match goal with |- context [list_sum [szf ?n ?CL ?x]] =>
        assert (szf n CL x = a + b) as -> by (rewrite Len; apply (szf_new (l_n F s) (l_clusters F s) c)) end.
      change (list_sum [a + b]) with (a + b + 0).
      (* the old part: same sizes, the live ones without i and j *)
      match goal with |- context [map (szf _ ?CL) (filter (liveb (l_sets F s')) ?L)] =>
        assert (map (szf (l_n F s) CL) (filter (liveb (l_sets F s')) L)
                = map (szf (l_n F s) (l_clusters F s))
                      (filter (fun x => (liveb (l_sets F s) x && negb (x =? i)) && negb (x =? j)) L)) as -> end.
      { rewrite (filter_ext_in (liveb (l_sets F s')) (fun x => (liveb (l_sets F s) x && negb (x =? i)) && negb (x =? j))).
        - apply map_ext_in. intros x Hx. apply filter_In in Hx as [Hx _]. apply in_seq in Hx. apply szf_old. lia.
        - intros x Hx. apply in_seq in Hx. apply eq_true_iff_eq. rewrite !andb_true_iff, !negb_true_iff, !Nat.eqb_neq, !liveb_spec, (Hl x).
          split; [intros [H0|E]; [tauto|lia]|tauto]. }
      pose proof (di_sum s D) as Hs. unfold wsum in Hs.
      rewrite (sum_remove (szf (l_n F s) (l_clusters F s)) (liveb (l_sets F s)) i (seq 0 (length (l_sets F s)))) in Hs;
        [|apply seq_NoDup|apply in_seq; lia|apply liveb_spec, Li].
      rewrite (sum_remove (szf (l_n F s) (l_clusters F s)) (fun x => liveb (l_sets F s) x && negb (x =? i)) j (seq 0 (length (l_sets F s)))) in Hs;
        [|apply seq_NoDup|apply in_seq; lia|].
      2:{ apply andb_true_iff. split; [apply liveb_spec, Lj|apply negb_true_iff, Nat.eqb_neq; lia]. }
      rewrite Za, Zb in Hs. lia.
  Qed.

  Lemma steps_DI mt s sf : LI s -> DI s -> steps F (round_of mt) s sf -> DI sf /\ LI sf.
  Proof.
    intros I D H. induction H as [s Hn|s s' sf Hr _ IH]; [auto|].
    destruct (round_spec F flt fgt mean dist mt s s' I Hr) as (i & j & d & _ & I').
    apply (IH I' (DI_step mt s s' I D Hr)).
  Qed.

  Lemma liveb_all {A} (l : list A) x : x < length l -> liveb (map (@Some A) l) x = true.
  Proof.
    intros H. unfold liveb. rewrite nth_error_map. destruct (nth_error l x) eqn:E; [reflexivity|].
    apply nth_error_None in E. lia.
  Qed.

  Lemma DI_new sets s0 : l_new F dist sets = Ok s0 -> DI s0.
  Proof.
    intros H. unfold l_new in H. destruct (comb_new _) as [pairs| | |]; cbn [bind] in H; try discriminate.
    destruct (comb_new _) as [idx| | |]; cbn [bind] in H; try discriminate. injection H as <-.
    constructor; cbn [l_sets l_clusters l_n used flat_map].
    - constructor.
    - intros x [].
    - intros x. rewrite map_length. split.
      + intros L. split; [|intros []]. apply live_lt in L. rewrite map_length in L. exact L.
      + intros [Hx _]. apply liveb_spec, liveb_all, Hx.
    - intros k c Hk. destruct k; discriminate.
    - unfold wsum. cbn [l_sets l_clusters l_n]. rewrite map_length.
      assert (forall m, m <= length sets ->
                list_sum (map (szf (length sets) []) (filter (liveb (map (@Some group) sets)) (seq 0 m))) = m) as K.
      { induction m as [|m IHm]; intros Hm; [reflexivity|]. rewrite seq_S, filter_app, map_app, list_sum_app, IHm by lia.
        cbn [plus filter]. rewrite liveb_all by lia. cbn [map]. unfold szf, size_of.
        destruct (Nat.ltb_spec m (length sets)); [cbn; lia|lia]. }
      apply K. lia.
  Qed.

  Lemma indicies_filter (s : lstate) : indicies F s = filter (fun x => x <? l_n F s) (used (l_clusters F s)).
  Proof.
    unfold indicies, used. induction (l_clusters F s) as [|[[[l r] d] z] cl IH]; [reflexivity|].
    cbn [flat_map c_lhs c_rhs fst snd app filter]. rewrite IH.
    destruct (l <? l_n F s), (r <? l_n F s); reflexivity.
  Qed.

  (* THE RUN RETURNS A DENDROGRAM *)
  Theorem linkage_dendrogram mt sets sf : 1 <= length sets -> linkage F flt fgt mean dist mt sets = Ok sf ->
    let n := length sets in let cl := l_clusters F sf in
    length cl + 1 = n /\
    (forall k c, nth_error cl k = Some c ->
       c_lhs c < c_rhs c /\ c_rhs c < n + k /\ c_size c = szf n (firstn k cl) (c_lhs c) + szf n (firstn k cl) (c_rhs c)) /\
    Permutation (used cl) (seq 0 (2 * n - 2)) /\
    (2 <= n -> (exists c, nth_error cl (n - 2) = Some c /\ c_size c = n) /\ Permutation (indicies F sf) (seq 0 n)).
  Proof.
    intros Hn H. cbv zeta.
    destruct (linkage_run F flt fgt mean dist mt sets sf Hn H) as (s0 & H0 & C0 & R & If & Hlen & Hlive).
    unfold linkage in H. rewrite H0 in H. cbn [bind] in H.
    change (match mt with MUnion => union_round F flt dist | _ => arith_round F flt fgt mean mt end) with (round_of mt) in H.
    destruct (l_new_LI F dist sets s0 H0) as (I0 & _ & N0).
    destruct (steps_DI mt s0 sf I0 (DI_new sets s0 H0) (loop_steps F _ _ s0 sf H)) as [D _].
    destruct (mrun_count F flt s0 sf R) as [En _]. rewrite N0 in En.
    split; [exact Hlen|]. split; [intros k c Hk; rewrite <- En; apply (di_shape sf D k c Hk)|].
    (* every used index is below 2n-2 *)
    assert (forall x, In x (used (l_clusters F sf)) -> x < 2 * length sets - 2) as Hu.
    { intros x Hx. unfold used in Hx. apply in_flat_map in Hx as [c [Hc Hx]].
      apply In_nth_error in Hc as [k Hk]. destruct (di_shape sf D k c Hk) as (H1 & H2 & _). rewrite En in H2.
      assert (k < length (l_clusters F sf)) as Hk' by (apply nth_error_Some; rewrite Hk; discriminate).
      destruct Hx as [<-|[<-|[]]]; lia. }
    assert (length (used (l_clusters F sf)) = 2 * length sets - 2) as Lu.
    { unfold used. clear -Hlen. revert Hlen. generalize (length sets). induction (l_clusters F sf) as [|c cl IH]; intros m Hm; cbn [length flat_map app] in *; [lia|].
      specialize (IH (m - 1)). lia. }
    assert (Permutation (used (l_clusters F sf)) (seq 0 (2 * length sets - 2))) as Pu.
    { apply NoDup_Permutation_bis; [apply (di_nodup sf D)|rewrite seq_length, Lu; lia|].
      intros x Hx. apply in_seq. split; [lia|apply (Hu x Hx)]. }
    split; [exact Pu|]. intros H2. split.
    - (* the only live node is the last one, so its size is the whole sum *)
      pose proof (li_len F sf If) as Len. rewrite En in Len.
      assert (forall x, live (l_sets F sf) x <-> x = 2 * length sets - 2) as Lv.
      { intros x. rewrite (di_live sf D x). split.
        - intros [Hx Ux]. destruct (Nat.lt_ge_cases x (2 * length sets - 2)) as [Hlt|Hge]; [|lia].
          exfalso. apply Ux. apply (Permutation_in _ (Permutation_sym Pu)). apply in_seq. lia.
        - intros ->. split; [lia|]. intros Hx. apply Hu in Hx. lia. }
      pose proof (di_sum sf D) as Hs. unfold wsum in Hs. rewrite En, Len in Hs.
      replace (length sets + length (l_clusters F sf)) with (S (2 * length sets - 2)) in Hs by lia.
      rewrite seq_S, filter_app, map_app, list_sum_app in Hs. cbn [plus filter] in Hs.
      assert (filter (liveb (l_sets F sf)) (seq 0 (2 * length sets - 2)) = []) as E0.
      { destruct (filter (liveb (l_sets F sf)) (seq 0 (2 * length sets - 2))) as [|x t] eqn:Ef; [reflexivity|exfalso].
        assert (In x (filter (liveb (l_sets F sf)) (seq 0 (2 * length sets - 2)))) as Hx by (rewrite Ef; left; reflexivity).
        apply filter_In in Hx as [Hx E]. apply in_seq in Hx. apply liveb_spec, Lv in E. lia. }
      rewrite E0 in Hs. cbn [map list_sum plus] in Hs.
      assert (liveb (l_sets F sf) (2 * length sets - 2) = true) as E1 by (apply liveb_spec, Lv; reflexivity).
      rewrite E1 in Hs. cbn [map] in Hs. change (list_sum [?v]) with (v + 0) in Hs.
      unfold szf, size_of in Hs. destruct (Nat.ltb_spec (2 * length sets - 2) (length sets)); [lia|].
      replace (2 * length sets - 2 - length sets) with (length sets - 2) in Hs by lia.
      change (list_sum (@nil nat)) with 0 in Hs.
      destruct (nth_error (l_clusters F sf) (length sets - 2)) as [c|] eqn:Ec.
      + exists c. split; [reflexivity|]. unfold c_size. lia.
      + apply nth_error_None in Ec. lia.
    - rewrite indicies_filter, En. apply NoDup_Permutation.
      + apply NoDup_filter, (di_nodup sf D).
      + apply seq_NoDup.
      + intros x. rewrite filter_In, in_seq, Nat.ltb_lt. split; [intros [_ Hx]; lia|].
        intros [_ Hx]. split; [|lia]. apply (Permutation_in _ (Permutation_sym Pu)). apply in_seq. lia.
  Qed.
End D.
