(* JaxDescribesP.v — the ontology from_standard / from_standard_transitive returns is the one the
   three files describe: one term per [Term] stanza (id, name, flags as scanned), a direct parent
   link exactly for every is_a line collected by the scan, and for every record exactly the direct
   terms its rows name — a gene row is a line of the gene file (after the header) that parses, a
   disease row a line of phenotype.hpoa that starts with OMIM / ORPHA, is not a NOT row and parses. *)
From Coq Require Import Lia Relations Sorted.
From HpoV Require Import Gen.Consts Model.Base Model.Group Model.Onto Model.Query Model.Binary Model.TermId Model.Text Model.Script
  Proofs.GroupP Proofs.BaseP Proofs.ClosureP Proofs.AcyclicP Proofs.DistP Proofs.QgoodP Proofs.LinkP Proofs.RecordsP Proofs.C03W
  Proofs.SectionP Proofs.RoundTripP Proofs.AnnotP Proofs.BuilderAnnotP Proofs.SubLinksP Proofs.ReloadP Proofs.RoundTripAllP
  Proofs.C09P Proofs.JaxP Proofs.RoundTripSrcP Proofs.DecodeAnyP Proofs.BuilderICP Proofs.C16M.

Lemma obo_scan_noparents content st : obo_scan content = Ok st -> noparents (o_arena (fst st)).
Proof.
  unfold obo_scan, read_obo_chunks. intros H.
  refine (foldM_inv _ (fun st : onto * list (N * N) => noparents (o_arena (fst st))) _ _ (onto_new, []) st _ H); [|intros t []].
  intros [o1 conns] chunk [o2 conns2] _ Hs Np. cbn [fst] in *.
  destruct (strip_prefix term_header_nl chunk) as [stanza|].
  - destruct (term_from_obo stanza) as [[raw|]| | |] eqn:Et; cbn [bind] in Hs; try discriminate; [|injection Hs as <- _; exact Np].
    destruct (term_from_obo_blank stanza raw Et) as (E1 & _).
    unfold b_add_term in Hs. destruct (ar_insert raw (o_arena o1)) as [a'| | |] eqn:Ei; cbn [bind] in Hs; try discriminate.
    destruct (connections_of stanza (t_id raw)) as [cs| | |]; cbn [bind] in Hs; try discriminate.
    injection Hs as <- _. cbn [o_arena set_arena].
    unfold ar_insert in Ei. destruct (MAX_HPO_ID <=? _); [discriminate|]. destruct (ar_find _ (o_arena o1)); injection Ei as <-; [exact Np|].
    intros x Hin. cbn [ar_terms] in Hin. apply in_app_or in Hin as [Hin|[<-|[]]]; [apply Np, Hin|exact E1].
  - destruct (starts_with OBO_HEADER_START chunk).
    + destruct (version_from_obo (lines chunk)) as [v| | |]; cbn [bind] in Hs; try discriminate. injection Hs as <- _. exact Np.
    + injection Hs as <- _. exact Np.
Qed.

(* the rows of the gene file, the rows of the disease file *)
Definition gene_row (tr : bool) (genes : bytes) (g x : N) : Prop :=
  exists line sym, In line (lines (snd (split_first_line genes))) /\
    (if tr then phenotype_to_gene_line line else genes_to_phenotype_line line) = Ok (g, sym, x).

Definition disease_row (k : kind) (hpoa : bytes) (g x : N) : Prop :=
  exists line did name, In line (lines hpoa) /\
    (if starts_with s_OMIM line then Some KOmim else if starts_with s_ORPHA line then Some KOrpha else None) = Some k /\
    disease_components line = Ok (Some (did, name, x)) /\ parse_uint U32_MAX did = Some g.

Lemma gene_rows_direct (tr : bool) (ls : list bytes) : forall o o',
  foldM (fun (o1 : onto) (line : bytes) => do g <- (if tr then phenotype_to_gene_line line else genes_to_phenotype_line line) ;;
                        let '(gid, symbol, hpo) := g in b_annotate KGene gid symbol hpo o1) ls o = Ok o' ->
  (forall g x, In x (direct KGene o' g) <-> In x (direct KGene o g) \/
     exists line sym, In line ls /\ (if tr then phenotype_to_gene_line line else genes_to_phenotype_line line) = Ok (g, sym, x)) /\
  (forall k', k' <> KGene -> o_records k' o' = o_records k' o).
Proof.
  induction ls as [|l ls IH]; intros o o' H; cbn [foldM] in H.
  - injection H as <-. split; [|auto]. intros g x. split; [auto|]. intros [H|(line & _ & [] & _)]. exact H.
  - destruct (if tr then phenotype_to_gene_line l else genes_to_phenotype_line l) as [[[gid sym] hpo]| | |] eqn:Ep; cbn [bind] in H; try discriminate.
    destruct (b_annotate KGene gid sym hpo o) as [o1| | |] eqn:Ea; cbn [bind] in H; try discriminate.
    destruct (annotate_records KGene gid sym hpo o o1 Ea) as (D1 & _ & R1).
    destruct (IH o1 o' H) as (D' & R'). split.
    + intros g x. rewrite D', D1. split.
      * intros [[Hd|[-> ->]]|(line & s & Hin & Hl)]; [left; exact Hd|right; exists l, sym; split; [left; reflexivity|exact Ep]|].
        right. exists line, s. split; [right; exact Hin|exact Hl].
      * intros [Hd|(line & s & [<-|Hin] & Hl)]; [left; left; exact Hd| |right; exists line, s; auto].
        rewrite Ep in Hl. injection Hl as <- _ <-. left. right. auto.
    + intros k' Hk. rewrite (R' k' Hk). apply (R1 k' Hk).
Qed.

Definition row_kind (line : bytes) : option kind :=
  if starts_with s_OMIM line then Some KOmim else if starts_with s_ORPHA line then Some KOrpha else None.

Lemma disease_rows_direct (ls : list bytes) : forall o o',
  foldM (fun (o1 : onto) (line : bytes) =>
           match row_kind line with
           | None => Ok o1
           | Some k => do c <- disease_components line ;;
                       match c with
                       | None => Ok o1
                       | Some (did, name, h) => match parse_uint U32_MAX did with Some d => b_annotate k d name h o1 | None => Err ParseIntError end
                       end
           end) ls o = Ok o' ->
  (forall k g x, In x (direct k o' g) <-> In x (direct k o g) \/
     exists line did name, In line ls /\ row_kind line = Some k /\ disease_components line = Ok (Some (did, name, x)) /\ parse_uint U32_MAX did = Some g).
Proof.
  induction ls as [|l ls IH]; intros o o' H; cbn [foldM] in H.
  - injection H as <-. intros k g x. split; [auto|]. intros [H|(line & _ & _ & [] & _)]. exact H.
  - destruct (row_kind l) as [kl|] eqn:Ek.
    + destruct (disease_components l) as [[[[did name] h]|]| | |] eqn:Ec; cbn [bind] in H; try discriminate.
      * destruct (parse_uint U32_MAX did) as [d|] eqn:Ed; [|discriminate].
        destruct (b_annotate kl d name h o) as [o1| | |] eqn:Ea; cbn [bind] in H; try discriminate.
        destruct (annotate_records kl d name h o o1 Ea) as (D1 & _ & R1).
        intros k g x. rewrite (IH o1 o' H k g x). destruct (kind_eq_dec k kl) as [->|Hne].
        -- rewrite D1. split.
           ++ intros [[Hd|[-> ->]]|(line & di & na & Hin & Hr)]; [left; exact Hd|right; exists l, did, name; split; [left; reflexivity|auto]|].
              right. exists line, di, na. split; [right; exact Hin|exact Hr].
           ++ intros [Hd|(line & di & na & [<-|Hin] & Hk & Hc & Hp)]; [left; left; exact Hd| |right; exists line, di, na; auto].
              rewrite Ec in Hc. injection Hc as <- _ <-. rewrite Ed in Hp. injection Hp as <-. left. right. auto.
        -- assert (direct k o1 g = direct k o g) as -> by (unfold direct; rewrite (R1 k Hne); reflexivity). split.
           ++ intros [Hd|(line & di & na & Hin & Hr)]; [left; exact Hd|right; exists line, di, na; split; [right; exact Hin|exact Hr]].
           ++ intros [Hd|(line & di & na & [<-|Hin] & Hk & Hr)]; [left; exact Hd| |right; exists line, di, na; auto].
              rewrite Ek in Hk. injection Hk as <-. congruence.
      * intros k g x. rewrite (IH o o' H k g x). split.
        -- intros [Hd|(line & di & na & Hin & Hr)]; [left; exact Hd|right; exists line, di, na; split; [right; exact Hin|exact Hr]].
        -- intros [Hd|(line & di & na & [<-|Hin] & Hk & Hc & Hp)]; [left; exact Hd| |right; exists line, di, na; auto].
           rewrite Ec in Hc. discriminate.
    + intros k g x. rewrite (IH o o' H k g x). split.
      * intros [Hd|(line & di & na & Hin & Hr)]; [left; exact Hd|right; exists line, di, na; split; [right; exact Hin|exact Hr]].
      * intros [Hd|(line & di & na & [<-|Hin] & Hk & Hr)]; [left; exact Hd| |right; exists line, di, na; auto].
        rewrite Ek in Hk. discriminate.
Qed.

Lemma direct_same_records k o o' g : o_records k o' = o_records k o -> direct k o' g = direct k o g.
Proof. intros E. unfold direct. rewrite E. reflexivity. Qed.

(* WHAT THE THREE FILES SAY IS WHAT IS LOADED *)
Theorem load_jax_describes icf tr obo genes hpoa o : obo_closed obo -> load_jax icf tr obo genes hpoa = Ok o ->
  exists ob conns, obo_scan obo = Ok (ob, conns) /\
    o_version o = o_version ob /\
    core (ar_terms (o_arena ob)) (ar_terms (o_arena o)) /\
    (forall c p, parent_rel (o_arena o) c p <-> In (c, p) conns) /\
    (forall g x, In x (direct KGene o g) <-> gene_row tr genes g x) /\
    (forall g x, In x (direct KOmim o g) <-> disease_row KOmim hpoa g x) /\
    (forall g x, In x (direct KOrpha o g) <-> disease_row KOrpha hpoa g x).
Proof.
  intros Cl H. unfold load_jax in H.
  apply bind_Ok' in H as [o1 [H1 H]]. apply bind_Ok' in H as [o2 [H2 H]]. apply bind_Ok' in H as [o3 [H3 H]].
  apply bind_Ok' in H as [o4 [H4 H]]. apply bind_Ok' in H as [o5 [H5 H6]].
  rewrite read_obo_unfold in H1. apply bind_Ok' in H1 as [[ob conns] [Hs H1]].
  apply bind_Ok' in H1 as [a [Ha H1]]. injection H1 as <-.
  exists ob, conns. split; [exact Hs|].
  destruct (obo_scan_ok obo (ob, conns) Hs) as [B P C Na R K]. cbn [fst snd] in *.
  pose proof (obo_scan_noparents obo (ob, conns) Hs) as Np. cbn [fst] in Np.
  assert (Forall (fun cp : N * N => In (fst cp) (ar_keys (o_arena ob)) /\ In (snd cp) (ar_keys (o_arena ob))) conns) as Hcl.
  { pose proof (Cl ob conns Hs) as Cp. clear -K Cp. induction conns as [|cp conns IH]; [constructor|].
    inversion K; inversion Cp; subst. constructor; auto. }
  destruct (links_rel conns (o_arena ob) a B P Hcl Ha) as [C12 PR12].
  destruct (obo_links conns (o_arena ob) a B P Na Hcl Ha) as (B' & P' & N' & K').
  (* connect *)
  unfold b_connect_all_terms in H2. cbn [o_arena set_arena] in H2.
  destruct (connect_all (default_fuel a) a) as [a3| | |] eqn:Ec; cbn [bind] in H2; try discriminate. injection H2 as <-.
  destruct (connect_all_exact _ _ _ (b_wf _ B') (b_empty _ B') Ec) as [Sm _].
  set (o2 := set_arena a3 (set_arena a ob)) in *.
  assert (norecords o2) as R2 by (intros k; destruct k; [exact (R KGene)|exact (R KOmim)|exact (R KOrpha)]).
  (* the annotation files *)
  unfold parse_gene_file in H3. destruct (split_first_line genes) as [hdr rest] eqn:Eh. destruct (negb _); [discriminate|].
  destruct (gene_rows_direct tr (lines rest) o2 o3 H3) as [D3 R3].
  assert (same_struct (ar_terms (o_arena o2)) (ar_terms (o_arena o3))) as SS3.
  { refine (foldM_inv _ (fun s => same_struct (ar_terms (o_arena o2)) (ar_terms (o_arena s))) _ _ o2 o3 (same_struct_refl _) H3).
    intros s line s' _ Hstep Ss.
    destruct (if tr then phenotype_to_gene_line line else genes_to_phenotype_line line) as [[[gid sym] hpo]| | |]; cbn [bind] in Hstep; try discriminate.
    apply (same_struct_trans _ _ _ Ss (annotate_same_struct _ _ _ _ _ _ Hstep)). }
  unfold parse_hpoa in H4. fold row_kind in H4.
  change (foldM _ (lines hpoa) o3 = Ok o4) with
    (foldM (fun (o1 : onto) (line : bytes) =>
           match row_kind line with
           | None => Ok o1
           | Some k => do c <- disease_components line ;;
                       match c with
                       | None => Ok o1
                       | Some (did, name, h) => match parse_uint U32_MAX did with Some d => b_annotate k d name h o1 | None => Err ParseIntError end
                       end
           end) (lines hpoa) o3 = Ok o4) in H4.
  pose proof (disease_rows_direct (lines hpoa) o3 o4 H4) as D4.
  assert (same_struct (ar_terms (o_arena o3)) (ar_terms (o_arena o4))) as SS4.
  { refine (foldM_inv _ (fun s => same_struct (ar_terms (o_arena o3)) (ar_terms (o_arena s))) _ _ o3 o4 (same_struct_refl _) H4).
    intros s line s' _ Hstep Ss. destruct (row_kind line) as [k|]; [|injection Hstep as <-; exact Ss].
    destruct (disease_components line) as [[[[did name] h]|]| | |]; cbn [bind] in Hstep; try discriminate; [|injection Hstep as <-; exact Ss].
    destruct (parse_uint U32_MAX did) as [d|]; [|discriminate].
    apply (same_struct_trans _ _ _ Ss (annotate_same_struct _ _ _ _ _ _ Hstep)). }
  pose proof (calculate_ic_same_struct icf o4 o5 H5) as SS5. pose proof (build_with_defaults_arena o5 o H6) as Ea.
  pose proof (same_struct_trans _ _ _ (same_struct_trans _ _ _ SS3 SS4) SS5) as SS25. rewrite <- Ea in SS25.
  assert (forall k, o_records k o = o_records k o4) as Ro
    by (intros k; rewrite (build_with_defaults_records o5 o H6), (calculate_ic_records icf o4 o5 H5); reflexivity).
  assert (forall k g, direct k o2 g = []) as D2 by (intros k g; unfold direct; rewrite (R2 k); reflexivity).
  split.
  { (* version: connect, annotate, calculate_ic and the defaults leave it alone *)
    assert (forall k id name tid s s', b_annotate k id name tid s = Ok s' -> o_version s' = o_version s) as Va.
    { intros k id name tid s s' Hb. unfold b_annotate in Hb. destruct (o_get tid s); [|discriminate].
      destruct (an_find id _); [|discriminate]. destruct (link _ k _ tid id) as [aL| | |]; cbn [bind] in Hb; try discriminate.
      injection Hb as <-. destruct k; reflexivity. }
    assert (o_version o3 = o_version o2) as V3.
    { refine (foldM_inv _ (fun s => o_version s = o_version o2) _ _ o2 o3 eq_refl H3). intros s line s' _ Hstep Vs.
      destruct (if tr then phenotype_to_gene_line line else genes_to_phenotype_line line) as [[[gid sym] hpo]| | |]; cbn [bind] in Hstep; try discriminate.
      rewrite (Va _ _ _ _ _ _ Hstep). exact Vs. }
    assert (o_version o4 = o_version o3) as V4.
    { refine (foldM_inv _ (fun s => o_version s = o_version o3) _ _ o3 o4 eq_refl H4). intros s line s' _ Hstep Vs.
      destruct (row_kind line) as [k|]; [|injection Hstep as <-; exact Vs].
      destruct (disease_components line) as [[[[did name] h]|]| | |]; cbn [bind] in Hstep; try discriminate; [|injection Hstep as <-; exact Vs].
      destruct (parse_uint U32_MAX did) as [d|]; [|discriminate]. rewrite (Va _ _ _ _ _ _ Hstep). exact Vs. }
    destruct (calculate_ic_spec icf o4 o5 H5) as (_ & V5 & _).
    assert (o_version o = o_version o5) as ->.
    { unfold b_build_with_defaults, set_default_categories, set_default_modifier in H6.
      destruct (o_get ROOT_ID_CAT (b_build_minimal o5)); [|discriminate].
      destruct (o_get PHENOTYPE_ID (b_build_minimal o5)); [|discriminate]. cbn [bind] in H6.
      match type of H6 with context [o_get ROOT_ID ?x] => destruct (o_get ROOT_ID x) end; [|discriminate].
      injection H6 as <-. reflexivity. }
    rewrite V5, V4, V3. reflexivity. }
  split.
  { apply (core_trans _ _ _ C12). apply (core_trans _ (ar_terms a3)); [apply (same_but_allp_core _ _ Sm)|apply (same_struct_core _ _ SS25)]. }
  split.
  { intros c p. rewrite <- (same_links_parent_rel (o_arena o2) (o_arena o) c p (same_struct_links _ _ SS25)).
    unfold o2. cbn [o_arena set_arena]. rewrite <- (same_parent_rel a a3 c p Sm), PR12. split; [|auto].
    intros [[t [Ht [_ Hp]]]|Hin]; [|exact Hin]. rewrite (Np t Ht) in Hp. destruct Hp. }
  assert (forall k line, row_kind line = Some k -> k <> KGene) as Nk.
  { intros k line Hk. unfold row_kind in Hk. destruct (starts_with s_OMIM line); [injection Hk as <-; discriminate|].
    destruct (starts_with s_ORPHA line); [injection Hk as <-; discriminate|discriminate]. }
  split; [|split].
  - intros g x. rewrite (direct_same_records KGene o4 o g (Ro KGene)), (D4 KGene g x), (D3 g x), D2. unfold gene_row. rewrite Eh. cbn [snd In]. split.
    + intros [[[]|Hr]|(line & di & na & _ & Hk & _)]; [exact Hr|]. exfalso. apply (Nk _ _ Hk eq_refl).
    + intros Hr. left. right. exact Hr.
  - intros g x. rewrite (direct_same_records KOmim o4 o g (Ro KOmim)), (D4 KOmim g x).
    rewrite (direct_same_records KOmim o2 o3 g (R3 KOmim ltac:(discriminate))), D2. unfold disease_row. fold row_kind. cbn [In]. tauto.
  - intros g x. rewrite (direct_same_records KOrpha o4 o g (Ro KOrpha)), (D4 KOrpha g x).
    rewrite (direct_same_records KOrpha o2 o3 g (R3 KOrpha ltac:(discriminate))), D2. unfold disease_row. fold row_kind. cbn [In]. tauto.
Qed.

(* every direct term of every record of a JAX-loaded ontology is a term of the ontology *)
Theorem load_jax_direct_in_keys icf tr obo genes hpoa o : obo_closed obo -> load_jax icf tr obo genes hpoa = Ok o ->
  forall k r d, In r (o_records k o) -> In d (a_hpos r) -> In d (ar_keys (o_arena o)).
Proof.
  intros Cl H. destruct (load_jax_src icf tr obo genes hpoa o Cl H) as (_ & Nd & _).
  unfold load_jax in H.
  apply bind_Ok' in H as [o1 [H1 H]]. apply bind_Ok' in H as [o2 [H2 H]]. apply bind_Ok' in H as [o3 [H3 H]].
  apply bind_Ok' in H as [o4 [H4 H]]. apply bind_Ok' in H as [o5 [H5 H6]].
  assert (DK o2) as D2.
  { intros k g d Hd. unfold direct in Hd.
    rewrite read_obo_unfold in H1. apply bind_Ok' in H1 as [[ob conns] [Hs H1]].
    apply bind_Ok' in H1 as [a [Ha H1]]. injection H1 as <-.
    destruct (obo_scan_ok obo (ob, conns) Hs) as [_ _ _ _ R _]. cbn [fst] in R.
    unfold b_connect_all_terms in H2. destruct (connect_all _ _) as [a3| | |]; cbn [bind] in H2; try discriminate. injection H2 as <-.
    assert (o_records k (set_arena a3 (set_arena a ob)) = []) as E by (rewrite <- (R k); destruct k; reflexivity).
    rewrite E in Hd. destruct Hd. }
  assert (DK o3) as D3.
  { unfold parse_gene_file in H3. destruct (split_first_line genes) as [hdr rest]. destruct (negb _); [discriminate|].
    refine (foldM_inv _ DK _ _ o2 o3 D2 H3). intros s line s' _ Hs Ds.
    destruct (if tr then phenotype_to_gene_line line else genes_to_phenotype_line line) as [[[gid sym] hpo]| | |]; cbn [bind] in Hs; try discriminate.
    apply (DK_annotate KGene gid sym hpo s s' Ds Hs). }
  assert (DK o4) as D4.
  { unfold parse_hpoa in H4. refine (foldM_inv _ DK _ _ o3 o4 D3 H4). intros s line s' _ Hs Ds.
    destruct (if starts_with s_OMIM line then Some KOmim else if starts_with s_ORPHA line then Some KOrpha else None) as [k|];
      [|injection Hs as <-; exact Ds].
    destruct (disease_components line) as [[[[did name] h]|]| | |]; cbn [bind] in Hs; try discriminate; [|injection Hs as <-; exact Ds].
    destruct (parse_uint U32_MAX did) as [d|]; [|discriminate]. apply (DK_annotate k d name h s s' Ds Hs). }
  assert (forall k, o_records k o = o_records k o4) as Ro
    by (intros k; rewrite (build_with_defaults_records o5 o H6), (calculate_ic_records icf o4 o5 H5); reflexivity).
  assert (ar_keys (o_arena o) = ar_keys (o_arena o4)) as Ek.
  { rewrite (build_with_defaults_arena o5 o H6). apply same_struct_keys, (calculate_ic_same_struct icf o4 o5 H5). }
  intros k r d Hr Hd. rewrite Ek. apply (D4 k (a_id r) d). unfold direct, an_find.
  rewrite Ro in Hr. specialize (Nd k). rewrite Ro in Nd. rewrite (find_by_unique a_id _ r Nd Hr). exact Hd.
Qed.

(* C09's core: an ontology loaded from the JAX files and one built through the Builder API that state
   the same direct facts agree, term by term, on everything derived *)
Theorem jax_equals_builder icf tr obo genes hpoa o1 s codes o2 t1 t2 :
  obo_closed obo -> load_jax icf tr obo genes hpoa = Ok o1 -> run_script icf s = Ok (codes, Ok o2) ->
  C16M.same_facts o1 o2 ->
  In t1 (ar_terms (o_arena o1)) -> In t2 (ar_terms (o_arena o2)) -> t_id t2 = t_id t1 ->
  t_parents t2 = t_parents t1 /\ t_children t2 = t_children t1 /\ t_allp t2 = t_allp t1 /\
  (forall k, t_annots k t2 = t_annots k t1) /\ t_ic t2 = t_ic t1.
Proof.
  intros Cl H1 H2 SF. destruct (load_jax_ok icf tr obo genes hpoa o1 Cl H1) as (_ & _ & A1 & I1).
  destruct (load_jax_src icf tr obo genes hpoa o1 Cl H1) as (S1 & N1 & _).
  apply (C16M.derived_data_function_of_facts icf o1 o2 t1 t2 S1 (run_script_src_ok icf s codes o2 H2) A1
           (proj2 (run_script_ann_ok icf s codes o2 H2)) I1).
  - intros t Ht k. apply (BuilderICP.run_script_ic icf s codes o2 H2 t Ht k).
  - exact N1.
  - apply (run_script_records_nodup icf s codes o2 H2).
  - apply (load_jax_direct_in_keys icf tr obo genes hpoa o1 Cl H1).
  - apply (run_script_direct_in_keys icf s codes o2 H2).
  - exact SF.
Qed.
