(* C19B.v — "descends from" in C19 is the real is_a relation: for every Builder-built ontology a term
   is a modifier iff it is a modifier root or one is among its ancestors in the transitive closure
   of the is_a links, and its categories are the category terms it equals or descends from. *)
From Coq Require Import Sorted Relations.
From HpoV Require Import Gen.Consts Model.Base Model.Group Model.Onto Model.Query Model.Script
  Proofs.GroupP Proofs.ClosureP Proofs.DistP Proofs.QgoodP Proofs.C19P.

(* for EVERY ontology with exact ancestor caches (Builder-built, JAX-loaded, sub-ontology, accepted binary file) *)
Theorem qgood_is_modifier o t : qgood o -> In t (ar_terms (o_arena o)) ->
  (is_modifier o t = true <-> exists r, In r (o_mod o) /\ (r = t_id t \/ anc (o_arena o) (t_id t) r)).
Proof.
  intros G Ht.
  rewrite (is_modifier_spec o t (q_sorted_a o G t Ht)). split; intros [r [Hr Hd]]; exists r; (split; [exact Hr|]);
    (destruct Hd as [E|Hd]; [left; exact E|right; apply (q_exact o G t Ht r); exact Hd]).
Qed.

Theorem qgood_categories o t : qgood o -> In t (ar_terms (o_arena o)) ->
  forall c, In c (categories o t) <-> In c (o_cat o) /\ (c = t_id t \/ anc (o_arena o) (t_id t) c).
Proof.
  intros G Ht c.
  rewrite (categories_spec o t (q_sorted_a o G t Ht) c). split; intros [Hc Hd]; (split; [exact Hc|]);
    (destruct Hd as [E|Hd]; [left; exact E|right; apply (q_exact o G t Ht c); exact Hd]).
Qed.

Theorem builder_is_modifier icf s codes o t : run_script icf s = Ok (codes, Ok o) -> In t (ar_terms (o_arena o)) ->
  (is_modifier o t = true <-> exists r, In r (o_mod o) /\ (r = t_id t \/ anc (o_arena o) (t_id t) r)).
Proof. intros Hs. apply qgood_is_modifier, (run_script_qgood icf s codes o Hs). Qed.

Theorem builder_categories icf s codes o t : run_script icf s = Ok (codes, Ok o) -> In t (ar_terms (o_arena o)) ->
  forall c, In c (categories o t) <-> In c (o_cat o) /\ (c = t_id t \/ anc (o_arena o) (t_id t) c).
Proof. intros Hs. apply qgood_categories, (run_script_qgood icf s codes o Hs). Qed.
