(* DecodeClosedP.v — C15, second half, for binary files: for EVERY byte string (no well-formedness hypothesis,
   records may repeat ids, the parent section may name anything) an ontology that from_bytes returns has no
   dangling id on the record side: every term listed by a gene / disease record is a term of the ontology.
   (A record naming an absent term makes the load fail: link looks the term up first.) *)
From Coq Require Import Lia.
From HpoV Require Import Gen.Consts Model.Base Model.Group Model.Onto Model.Query Model.Binary
  Proofs.GroupP Proofs.BaseP Proofs.ClosureP Proofs.DistP Proofs.QgoodP Proofs.LinkP Proofs.RecordsP Proofs.SectionP Proofs.RoundTripP
  Proofs.AnnotP Proofs.BuilderAnnotP Proofs.SubLinksP Proofs.RoundTripAllP Proofs.RoundTripSrcP Proofs.DecodeAnyP.

Definition RK (o : onto) : Prop := forall k r d, In r (o_records k o) -> In d (a_hpos r) -> In d (ar_keys (o_arena o)).

Lemma update_by_In {A} (key : A -> N) k (f : A -> A) l x : In x (update_by key k f l) -> In x l \/ exists y, In y l /\ x = f y.
Proof.
  induction l as [|a t IH]; cbn [update_by]; [intros []|]. destruct (key a =? k).
  - intros [<-|H]; [right; exists a; split; [left; reflexivity|reflexivity]|left; right; exact H].
  - intros [<-|H]; [left; left; reflexivity|]. destruct (IH H) as [H'|[y [Hy E]]]; [left; right; exact H'|right; exists y; split; [right; exact Hy|exact E]].
Qed.

Lemma an_put_In r l x : In x (an_put r l) -> x = r \/ In x l.
Proof.
  unfold an_put. destruct (an_find (a_id r) l).
  - intros H. destruct (update_by_In _ _ _ _ _ H) as [H'|[y [_ E]]]; [right; exact H'|left; exact E].
  - intros H. apply in_app_or in H as [H|[<-|[]]]; [right; exact H|left; reflexivity].
Qed.

Lemma link_term_is_key fuel k a t g a' : link fuel k a t g = Ok a' -> In t (ar_keys a).
Proof.
  destruct fuel as [|f]; cbn [link]; [discriminate|]. destruct (ar_get t a) as [tt|] eqn:E; [|discriminate]. intros _.
  destruct (get_find a t tt E) as [_ Hf]. unfold ar_find in Hf. apply find_by_Some in Hf as [Hin Hid].
  rewrite <- Hid. unfold ar_keys. apply in_map, Hin.
Qed.

Lemma links_terms_are_keys k g ts : forall a a', foldM (fun a t => link (link_fuel a) k a t g) ts a = Ok a' ->
  ar_keys a' = ar_keys a /\ forall t, In t ts -> In t (ar_keys a).
Proof.
  induction ts as [|t ts IH]; intros a a' H; cbn [foldM] in H; [injection H as <-; split; [reflexivity|intros ? []]|].
  destruct (link (link_fuel a) k a t g) as [a1| | |] eqn:E1; cbn [bind] in H; try discriminate.
  pose proof (same_struct_keys _ _ (link_same_struct k g _ _ _ _ E1)) as K1.
  destruct (IH a1 a' H) as [K T]. split; [rewrite K; exact K1|].
  intros x [<-|Hx]; [apply (link_term_is_key _ _ _ _ _ _ E1)|rewrite <- K1; apply T, Hx].
Qed.

Lemma RK_load_record k o r o' : RK o -> load_record k o r = Ok o' -> RK o'.
Proof.
  intros R H. unfold load_record in H. apply bind_Ok' in H as [a' [Ha H]]. injection H as <-.
  destruct (links_terms_are_keys k (a_id r) (a_hpos r) _ _ Ha) as [K T].
  set (l := an_put r (o_records k o)).
  assert (o_arena (set_records k l (set_arena a' o)) = a') as Ea by (destruct k; reflexivity).
  assert (o_records k (set_records k l (set_arena a' o)) = l) as Ek by (destruct k; reflexivity).
  assert (forall k', k' <> k -> o_records k' (set_records k l (set_arena a' o)) = o_records k' o) as Eo
    by (intros k' Hne; destruct k, k'; try reflexivity; congruence).
  intros k' x d Hx Hd. rewrite Ea, K. destruct (kind_eq_dec k' k) as [->|Hne].
  - rewrite Ek in Hx. destruct (an_put_In _ _ _ Hx) as [->|Hx']; [apply T, Hd|apply (R k x d Hx' Hd)].
  - rewrite (Eo k' Hne) in Hx. apply (R k' x d Hx Hd).
Qed.

Lemma RK_load_records k rs : forall o o', RK o -> foldM (load_record k) rs o = Ok o' -> RK o'.
Proof.
  intros o o' R H. refine (foldM_inv _ RK _ _ o o' R H). intros s r s' _ Hs Rs. apply (RK_load_record k s r s' Rs Hs).
Qed.

Theorem decode_records_closed icf input o : decode icf input = Ok o ->
  forall k r d, In r (o_records k o) -> In d (a_hpos r) -> In d (ar_keys (o_arena o)).
Proof.
  intros H.
  destruct (decode_stages icf input o H) as (v & ver & f & st & sp & sg & sm & so & a1 & a2 & a3 & o4 & o5 & o6 & o7 & Hs & H1 & H2 & H3 & H4 & H5 & H6 & H7 & H8).
  assert (RK (set_arena a3 (set_version ver onto_new))) as R3 by (intros k r d Hr; destruct k; destruct Hr).
  destruct (read_records_parse f KGene sg 0 _ o4 H4) as [gs [_ F4]]. pose proof (RK_load_records KGene gs _ o4 R3 F4) as R4.
  destruct (read_records_parse f KOmim sm 0 _ o5 H5) as [ms [_ F5]]. pose proof (RK_load_records KOmim ms _ o5 R4 F5) as R5.
  assert (RK o6) as R6.
  { destruct so as [s|]; [|subst o6; exact R5]. destruct (read_records_parse f KOrpha s 0 _ o6 H6) as [os [_ F6]]. apply (RK_load_records KOrpha os _ o6 R5 F6). }
  intros k r d Hr Hd. rewrite (build_with_defaults_records o7 o H8), (calculate_ic_records icf o6 o7 H7) in Hr.
  rewrite (build_with_defaults_arena o7 o H8), (same_struct_keys _ _ (calculate_ic_same_struct icf o6 o7 H7)).
  apply (R6 k r d Hr Hd).
Qed.
