(* DecodeClosedP.v — C15, second half, for binary files: for EVERY byte string (no well-formedness hypothesis,
   records may repeat ids, the parent section may name anything) an ontology that from_bytes returns has no
   dangling id on the record side: every term listed by a gene / disease record is a term of the ontology.
   (A record naming an absent term makes the load fail: link looks the term up first.) *)
From Coq Require Import Lia.
From HpoV Require Import Gen.Consts Model.Base Model.Group Model.Onto Model.Query Model.Binary
  Proofs.GroupP Proofs.BaseP Proofs.ClosureP Proofs.DistP Proofs.QgoodP Proofs.LinkP Proofs.RecordsP Proofs.SectionP Proofs.RoundTripP
  Proofs.AnnotP Proofs.BuilderAnnotP Proofs.SubLinksP Proofs.RoundTripAllP Proofs.RoundTripSrcP Proofs.C03W Proofs.DecodeAnyP.

Definition RK (o : onto) : Prop := forall k r d, In r (o_records k o) -> In d (a_hpos r) -> In d (ar_keys (o_arena o)).

Lemma update_by_In {A} (key : A -> N) k (f : A -> A) l x : In x (update_by key k f l) -> In x l \/ exists y, In y l /\ x = f y.
Proof.
  induction l as [|a t IH]; cbn [update_by]; [intros []|]. destruct (key a =? k).
  - intros [<-|H]; [right; exists a; split; [left; reflexivity|reflexivity]|left; right; exact H].
  - intros [<-|H]; [left; left; reflexivity|]. destruct (IH H) as [H'|[y [Hy E]]]; [left; right; exact H'|right; exists y; split; [right; exact Hy|exact E]].
Qed.

Lemma an_put_In r l x : In x (an_put r l) -> x = r \/ In x l.
Proof.
  unfold an_put. destruct (an_find (a_id r) l).
  - intros H. destruct (update_by_In _ _ _ _ _ H) as [H'|[y [_ E]]]; [right; exact H'|left; exact E].
  - intros H. apply in_app_or in H as [H|[<-|[]]]; [right; exact H|left; reflexivity].
Qed.

Lemma link_term_is_key fuel k a t g a' : link fuel k a t g = Ok a' -> In t (ar_keys a).
Proof.
  destruct fuel as [|f]; cbn [link]; [discriminate|]. destruct (ar_get t a) as [tt|] eqn:E; [|discriminate]. intros _.
  destruct (get_find a t tt E) as [_ Hf]. unfold ar_find in Hf. apply find_by_Some in Hf as [Hin Hid].
  rewrite <- Hid. unfold ar_keys. apply in_map, Hin.
Qed.

Lemma links_terms_are_keys k g ts : forall a a', foldM (fun a t => link (link_fuel a) k a t g) ts a = Ok a' ->
  ar_keys a' = ar_keys a /\ forall t, In t ts -> In t (ar_keys a).
Proof.
  induction ts as [|t ts IH]; intros a a' H; cbn [foldM] in H; [injection H as <-; split; [reflexivity|intros ? []]|].
  destruct (link (link_fuel a) k a t g) as [a1| | |] eqn:E1; cbn [bind] in H; try discriminate.
  pose proof (same_struct_keys _ _ (link_same_struct k g _ _ _ _ E1)) as K1.
  destruct (IH a1 a' H) as [K T]. split; [rewrite K; exact K1|].
  intros x [<-|Hx]; [apply (link_term_is_key _ _ _ _ _ _ E1)|rewrite <- K1; apply T, Hx].
Qed.

Lemma RK_load_record k o r o' : RK o -> load_record k o r = Ok o' -> RK o'.
Proof.
  intros R H. unfold load_record in H. apply bind_Ok' in H as [a' [Ha H]]. injection H as <-.
  destruct (links_terms_are_keys k (a_id r) (a_hpos r) _ _ Ha) as [K T].
  set (l := an_put r (o_records k o)).
  assert (o_arena (set_records k l (set_arena a' o)) = a') as Ea by (destruct k; reflexivity).
  assert (o_records k (set_records k l (set_arena a' o)) = l) as Ek by (destruct k; reflexivity).
  assert (forall k', k' <> k -> o_records k' (set_records k l (set_arena a' o)) = o_records k' o) as Eo
    by (intros k' Hne; destruct k, k'; try reflexivity; congruence).
  intros k' x d Hx Hd. rewrite Ea, K. destruct (kind_eq_dec k' k) as [->|Hne].
  - rewrite Ek in Hx. destruct (an_put_In _ _ _ Hx) as [->|Hx']; [apply T, Hd|apply (R k x d Hx' Hd)].
  - rewrite (Eo k' Hne) in Hx. apply (R k' x d Hx Hd).
Qed.

Lemma RK_load_records k rs : forall o o', RK o -> foldM (load_record k) rs o = Ok o' -> RK o'.
Proof.
  intros o o' R H. refine (foldM_inv _ RK _ _ o o' R H). intros s r s' _ Hs Rs. apply (RK_load_record k s r s' Rs Hs).
Qed.

Theorem decode_records_closed icf input o : decode icf input = Ok o ->
  forall k r d, In r (o_records k o) -> In d (a_hpos r) -> In d (ar_keys (o_arena o)).
Proof.
  intros H.
  destruct (decode_stages icf input o H) as (v & ver & f & st & sp & sg & sm & so & a1 & a2 & a3 & o4 & o5 & o6 & o7 & Hs & H1 & H2 & H3 & H4 & H5 & H6 & H7 & H8).
  assert (RK (set_arena a3 (set_version ver onto_new))) as R3 by (intros k r d Hr; destruct k; destruct Hr).
  destruct (read_records_parse f KGene sg 0 _ o4 H4) as [gs [_ F4]]. pose proof (RK_load_records KGene gs _ o4 R3 F4) as R4.
  destruct (read_records_parse f KOmim sm 0 _ o5 H5) as [ms [_ F5]]. pose proof (RK_load_records KOmim ms _ o5 R4 F5) as R5.
  assert (RK o6) as R6.
  { destruct so as [s|]; [|subst o6; exact R5]. destruct (read_records_parse f KOrpha s 0 _ o6 H6) as [os [_ F6]]. apply (RK_load_records KOrpha os _ o6 R5 F6). }
  intros k r d Hr Hd. rewrite (build_with_defaults_records o7 o H8), (calculate_ic_records icf o6 o7 H7) in Hr.
  rewrite (build_with_defaults_arena o7 o H8), (same_struct_keys _ _ (calculate_ic_same_struct icf o6 o7 H7)).
  apply (R6 k r d Hr Hd).
Qed.

(* ---------------- the term side, every byte string ---------------- *)

(* every annotation id a term carries has a record: holds of whatever from_bytes returns, for any input *)
Definition TK (o : onto) : Prop := forall k t g, In t (ar_terms (o_arena o)) -> In g (t_annots k t) -> In g (map a_id (o_records k o)).

(* one link call only ever ADDS the linked id, and only to sets of its own kind: every id a term carries afterwards
   was carried by some term before, or is the linked id (no well-formedness of the arena is needed) *)
Definition grows_by (k : kind) (gid : N) (a a' : arena) : Prop :=
  forall t', In t' (ar_terms a') -> forall k' x, In x (t_annots k' t') ->
    (exists t, In t (ar_terms a) /\ In x (t_annots k' t)) \/ (k' = k /\ x = gid).

Lemma grows_refl k g a : grows_by k g a a.
Proof. intros t' Ht k' x Hx. left. exists t'. auto. Qed.

Lemma grows_trans k g a b c : grows_by k g a b -> grows_by k g b c -> grows_by k g a c.
Proof.
  intros H1 H2 t' Ht k' x Hx. destruct (H2 t' Ht k' x Hx) as [[t [Ht2 Hx2]]|E]; [|right; exact E].
  apply (H1 t Ht2 k' x Hx2).
Qed.

Lemma t_annots_set_same k l t : t_annots k (set_annots k l t) = l.
Proof. destruct k; reflexivity. Qed.
Lemma t_annots_set_other k k' l t : k' <> k -> t_annots k' (set_annots k l t) = t_annots k' t.
Proof. intros H. destruct k, k'; try reflexivity; congruence. Qed.

Lemma link_grows fuel k gid : forall a tid a', link fuel k a tid gid = Ok a' -> grows_by k gid a a'.
Proof.
  induction fuel as [|f IH]; intros a tid a' H; cbn [link] in H; [discriminate|].
  destruct (ar_get tid a) as [t|] eqn:Eg; [|discriminate].
  destruct (g_insert gid (t_annots k t)) as [set' isnew] eqn:Ei.
  destruct isnew; [|injection H as <-; apply grows_refl].
  destruct (get_find a tid t Eg) as [_ Hf]. unfold ar_find in Hf. apply find_by_Some in Hf as [Hin _].
  assert (grows_by k gid a (ar_update tid (set_annots k set') a)) as G0.
  { intros t' Ht' k' x Hx. unfold ar_update in Ht'. cbn [ar_terms] in Ht'.
    destruct (update_by_In _ _ _ _ _ Ht') as [Hold|[y [Hy ->]]]; [left; exists t'; auto|].
    destruct (kind_eq_dec k' k) as [->|Hne]; [rewrite t_annots_set_same in Hx|rewrite (t_annots_set_other _ _ _ _ Hne) in Hx; left; exists y; auto].
    assert (set' = fst (g_insert gid (t_annots k t))) as -> by (rewrite Ei; reflexivity).
    (* y is the term with id tid that was updated; its old set of kind k may differ from t's when ids repeat:
       every element of the new set is gid or an element of t's old set, and t is a term of a *)
    apply g_insert_In in Hx as [->|Hx]; [right; auto|left; exists t; auto]. }
  refine (grows_trans _ _ _ _ _ G0 _).
  clear G0 Eg Ei Hin. revert H. generalize (ar_update tid (set_annots k set') a). generalize (t_allp t).
  intros l. induction l as [|p l IHl]; intros a0 H; cbn [foldM] in H; [injection H as <-; apply grows_refl|].
  destruct (link f k a0 p gid) as [a1| | |] eqn:E1; cbn [bind] in H; try discriminate.
  apply (grows_trans _ _ _ _ _ (IH _ _ _ E1) (IHl _ H)).
Qed.

Lemma TK_load_record k o r o' : TK o -> load_record k o r = Ok o' -> TK o'.
Proof.
  intros T H. unfold load_record in H. apply bind_Ok' in H as [a' [Ha H]]. injection H as <-.
  set (l := an_put r (o_records k o)).
  assert (o_arena (set_records k l (set_arena a' o)) = a') as Ea by (destruct k; reflexivity).
  assert (o_records k (set_records k l (set_arena a' o)) = l) as Ek by (destruct k; reflexivity).
  assert (forall k', k' <> k -> o_records k' (set_records k l (set_arena a' o)) = o_records k' o) as Eo
    by (intros k' Hne; destruct k, k'; try reflexivity; congruence).
  assert (grows_by k (a_id r) (o_arena o) a') as G.
  { revert Ha. generalize (o_arena o). generalize (a_hpos r). intros l0. induction l0 as [|t ts IH]; intros a0 Ha; cbn [foldM] in Ha; [injection Ha as <-; apply grows_refl|].
    destruct (link (link_fuel a0) k a0 t (a_id r)) as [a1| | |] eqn:E1; cbn [bind] in Ha; try discriminate.
    apply (grows_trans _ _ _ _ _ (link_grows _ _ _ _ _ _ E1) (IH _ Ha)). }
  assert (forall x, In x (map a_id (o_records k o)) -> In x (map a_id l)) as Mono.
  { intros x Hx. unfold l, an_put. destruct (an_find (a_id r) (o_records k o)) eqn:Ef.
    - apply in_map_iff in Hx as [y [<- Hy]]. destruct (N.eq_dec (a_id y) (a_id r)) as [E|Ne].
      + rewrite E. apply in_map_iff. exists r. split; [reflexivity|]. clear -Hy E. induction (o_records k o) as [|z zs IH]; [destruct Hy|].
        cbn [update_by]. destruct (N.eqb_spec (a_id z) (a_id r)); [left; reflexivity|]. destruct Hy as [->|Hy]; [congruence|right; apply IH, Hy].
      + apply in_map. clear -Hy Ne. induction (o_records k o) as [|z zs IH]; [destruct Hy|].
        cbn [update_by]. destruct Hy as [->|Hy].
        * destruct (N.eqb_spec (a_id y) (a_id r)); [congruence|left; reflexivity].
        * destruct (a_id z =? a_id r); right; [exact Hy|apply IH, Hy].
    - rewrite map_app. apply in_or_app. left. exact Hx. }
  assert (In (a_id r) (map a_id l)) as Hr.
  { unfold l, an_put. destruct (an_find (a_id r) (o_records k o)) as [r0|] eqn:Ef.
    - unfold an_find in Ef. apply find_by_Some in Ef as [Hin Hid]. apply in_map_iff. exists r. split; [reflexivity|].
      clear -Hin Hid. induction (o_records k o) as [|z zs IH]; [destruct Hin|]. cbn [update_by].
      destruct (N.eqb_spec (a_id z) (a_id r)); [left; reflexivity|]. destruct Hin as [->|Hin]; [congruence|right; apply IH, Hin].
    - rewrite map_app. apply in_or_app. right. left. reflexivity. }
  intros k' t g Ht Hg. rewrite Ea in Ht. destruct (G t Ht k' g Hg) as [[t0 [Ht0 Hg0]]|[-> ->]].
  - pose proof (T k' t0 g Ht0 Hg0) as Hin. destruct (kind_eq_dec k' k) as [->|Hne]; [rewrite Ek; apply Mono, Hin|rewrite (Eo k' Hne); exact Hin].
  - rewrite Ek. exact Hr.
Qed.

(* the record sections of a binary file, whatever they contain: loading them keeps "every id a term carries has a
   record" (no hypothesis on the arena: ids may repeat, caches may be anything) *)
Theorem TK_load_records k rs : forall o o', TK o -> foldM (load_record k) rs o = Ok o' -> TK o'.
Proof.
  intros o o' T H. refine (foldM_inv _ TK _ _ o o' T H). intros s r s' _ Hs Ts. apply (TK_load_record k s r s' Ts Hs).
Qed.

(* ---------------- the whole load, every byte string ---------------- *)

Lemma create_cache_noannot fuel : forall a id a', noannot a -> create_cache fuel a id = Ok a' -> noannot a'.
Proof.
  induction fuel as [|f IH]; intros a id a' Na H; cbn [create_cache] in H; [discriminate|].
  destruct (ar_get_unchecked id a) as [t| | |]; cbn [bind] in H; try discriminate.
  match type of H with bind ?e _ = _ => destruct e as [[a1 acc]| | |] eqn:Ef end; cbn [bind] in H; try discriminate.
  assert (noannot a1) as N1.
  { revert Ef. generalize (@nil N) at 1. generalize a Na. generalize (t_parents t) at 1. intros ps.
    induction ps as [|p ps IHp]; intros a0 Na0 acc0 Ef; cbn [foldM] in Ef; [injection Ef as <- _; exact Na0|].
    destruct (ar_get_unchecked p a0) as [tp| | |]; cbn [bind] in Ef; try discriminate.
    destruct (if parents_cached tp then Ok a0 else create_cache f a0 p) as [a2| | |] eqn:E2; cbn [bind] in Ef; try discriminate.
    assert (noannot a2) as N2 by (destruct (parents_cached tp); [injection E2 as <-; exact Na0|apply (IH _ _ _ Na0 E2)]).
    destruct (ar_get_unchecked p a2) as [tp'| | |]; cbn [bind] in Ef; try discriminate.
    apply (IHp a2 N2 _ Ef). }
  apply (noannot_update_unchecked _ _ _ _ N1 (fun t0 k0 => annots_set_allp _ t0 k0) H).
Qed.

Lemma connect_all_noannot fuel a a' : noannot a -> connect_all fuel a = Ok a' -> noannot a'.
Proof.
  unfold connect_all. generalize (ar_keys a). intros ks. revert a. induction ks as [|k ks IH]; intros a Na H; cbn [foldM] in H; [injection H as <-; exact Na|].
  destruct (create_cache fuel a k) as [a1| | |] eqn:E; cbn [bind] in H; try discriminate.
  apply (IH a1 (create_cache_noannot _ _ _ _ Na E) H).
Qed.

Lemma unchecked_noannot p c a a' : noannot a -> b_add_parent_unchecked p c a = Ok a' -> noannot a'.
Proof.
  unfold b_add_parent_unchecked. intros Na H. apply bind_Ok' in H as [a1 [H1 H2]].
  apply (noannot_update_unchecked _ _ _ _ (noannot_update_unchecked _ _ _ _ Na (fun t k => annots_set_children _ t k) H1) (fun t k => annots_set_parents _ t k) H2).
Qed.

(* EVERY byte string: in an ontology returned by from_bytes every gene / disease id a term carries has a record *)
Theorem decode_terms_closed icf input o : decode icf input = Ok o ->
  forall k t g, In t (ar_terms (o_arena o)) -> In g (t_annots k t) -> In g (map a_id (o_records k o)).
Proof.
  intros H.
  destruct (decode_stages icf input o H) as (v & ver & f & st & sp & sg & sm & so & a1 & a2 & a3 & o4 & o5 & o6 & o7 & Hs & H1 & H2 & H3 & H4 & H5 & H6 & H7 & H8).
  destruct (read_terms_blank f v st arena_default a1 H1 blank_default) as (_ & _ & _ & N1).
  destruct (read_parents_parse f sp 0 a1 a2 H2) as [conns [_ Hc]].
  assert (noannot a2) as N2.
  { revert Hc. generalize a1 N1. induction conns as [|cp cs IH]; intros a0 N0 Hc; cbn [foldM] in Hc; [injection Hc as <-; exact N0|].
    destruct (b_add_parent_unchecked (snd cp) (fst cp) a0) as [a0'| | |] eqn:E; cbn [bind] in Hc; try discriminate.
    apply (IH a0' (unchecked_noannot _ _ _ _ N0 E) Hc). }
  pose proof (connect_all_noannot _ _ _ N2 H3) as N3.
  assert (TK (set_arena a3 (set_version ver onto_new))) as T3.
  { intros k t g Ht Hg. cbn [o_arena set_arena] in Ht. rewrite (N3 t Ht k) in Hg. destruct Hg. }
  destruct (read_records_parse f KGene sg 0 _ o4 H4) as [gs [_ F4]]. pose proof (TK_load_records KGene gs _ o4 T3 F4) as T4.
  destruct (read_records_parse f KOmim sm 0 _ o5 H5) as [ms [_ F5]]. pose proof (TK_load_records KOmim ms _ o5 T4 F5) as T5.
  assert (TK o6) as T6.
  { destruct so as [s|]; [|subst o6; exact T5]. destruct (read_records_parse f KOrpha s 0 _ o6 H6) as [os [_ F6]]. apply (TK_load_records KOrpha os _ o6 T5 F6). }
  (* information content and the default groups leave annotation sets and records alone *)
  intros k t g Ht Hg. rewrite (build_with_defaults_records o7 o H8), (calculate_ic_records icf o6 o7 H7).
  rewrite (build_with_defaults_arena o7 o H8) in Ht.
  destruct (calculate_ic_spec icf o6 o7 H7) as (_ & _ & _ & _ & _ & F).
  destruct (Forall2_In_r _ _ _ t F Ht) as [t6 [Ht6 [Et _]]].
  rewrite Et in Hg. assert (t_annots k (set_ic (t_ic t) t6) = t_annots k t6) as Ea by (destruct k, t6; reflexivity).
  rewrite Ea in Hg. apply (T6 k t6 g Ht6 Hg).
Qed.
