(* C13U.v — the aggregates of an HpoSet: gene / disease ids = the union over the members, category
   counts = number of members per category, aggregated information content = calculate over the
   sizes of those unions. *)
From Coq Require Import Lia Sorted.
From HpoV Require Import Gen.Consts Model.Base Model.Group Model.Onto Model.Query Model.HSet
  Proofs.GroupP Proofs.SetsP Proofs.BaseP Proofs.C13P.

Lemma fold_union_spec k (ts : list term) : forall acc, sorted acc -> (forall t, In t ts -> sorted (t_annots k t)) ->
  sorted (fold_left (fun acc t => g_union acc (t_annots k t)) ts acc) /\
  forall x, In x (fold_left (fun acc t => g_union acc (t_annots k t)) ts acc) <-> In x acc \/ exists t, In t ts /\ In x (t_annots k t).
Proof.
  induction ts as [|t ts IH]; intros acc Sa St; cbn [fold_left].
  - split; [exact Sa|]. intros x. split; [auto|]. intros [H|[t [Hf _]]]; [exact H|destruct Hf].
  - destruct (IH (g_union acc (t_annots k t))) as [S' M'].
    + apply g_union_sorted; [exact Sa|apply St; left; reflexivity].
    + intros t0 H0. apply St. right. exact H0.
    + split; [exact S'|]. intros x. rewrite M', g_union_In. split.
      * intros [[H|H]|[t0 [H0 Hx]]]; [auto|right; exists t; split; [left; reflexivity|exact H]|right; exists t0; split; [right; exact H0|exact Hx]].
      * intros [H|[t0 [[<-|H0] Hx]]]; [auto|left; right; exact Hx|right; exists t0; auto].
Qed.

(* gene_ids / omim_disease_ids / orpha_disease_ids: the union of the members' annotation sets, as a sorted set *)
Theorem annot_ids_spec k o s r : (forall x t, In x s -> o_get x o = Some t -> sorted (t_annots k t)) ->
  hs_annot_ids k o s = Ok r ->
  sorted r /\ forall g, In g r <-> exists x t, In x s /\ o_get x o = Some t /\ In g (t_annots k t).
Proof.
  intros Hs H. unfold hs_annot_ids in H. destruct (mapM (hs_term o) s) as [ts| | |] eqn:E; cbn [bind] in H; try discriminate.
  injection H as <-. apply mapM_Ok in E.
  destruct (fold_union_spec k ts []) as [S M]; [constructor| |].
  - intros t Ht. destruct (Forall2_In_r _ _ _ t E Ht) as [x [Hx Hg]]. apply hs_term_Ok in Hg. apply (Hs x t Hx Hg).
  - split; [exact S|]. intros g. rewrite M. split.
    + intros [[]|[t [Ht Hg]]]. destruct (Forall2_In_r _ _ _ t E Ht) as [x [Hx Hget]]. apply hs_term_Ok in Hget. exists x, t. auto.
    + intros [x [t [Hx [Hget Hg]]]]. right. destruct (Forall2_In_l _ _ _ x E Hx) as [t' [Ht' Hget']]. apply hs_term_Ok in Hget'.
      rewrite Hget in Hget'. injection Hget' as <-. exists t. auto.
Qed.

(* the aggregated information content: calculate (records, size of the union) for genes and OMIM *)
Theorem information_content_spec icf o s g m : hs_information_content icf o s = Ok (g, m) ->
  exists gs ms, hs_annot_ids KGene o s = Ok gs /\ hs_annot_ids KOmim o s = Ok ms /\
    icf (Nlen (o_genes o)) (Nlen gs) = Ok g /\ icf (Nlen (o_omim o)) (Nlen ms) = Ok m.
Proof.
  unfold hs_information_content. intros H.
  destruct (hs_annot_ids KGene o s) as [gs| | |]; cbn [bind] in H; try discriminate.
  destruct (hs_annot_ids KOmim o s) as [ms| | |]; cbn [bind] in H; try discriminate.
  destruct (icf (Nlen (o_genes o)) (Nlen gs)) as [g'| | |] eqn:E1; cbn [bind] in H; try discriminate.
  destruct (icf (Nlen (o_omim o)) (Nlen ms)) as [m'| | |] eqn:E2; cbn [bind] in H; try discriminate.
  injection H as <- <-. exists gs, ms. auto.
Qed.

(* categories(): one entry per category that some member has, with the number of members having it *)
Theorem categories_count_spec o s r : hs_categories o s = Ok r ->
  exists ts, resolve_all o s = Ok ts /\
    forall c n, In (c, n) r <-> (exists t, In t ts /\ In c (categories o t)) /\
                               n = Nlen (filter (N.eqb c) (concat (map (categories o) ts))).
Proof.
  unfold hs_categories. intros H. destruct (resolve_all o s) as [ts| | |]; cbn [bind] in H; try discriminate.
  injection H as <-. exists ts. split; [reflexivity|]. intros c n. rewrite in_map_iff. split.
  - intros [c' [E Hc]]. injection E as -> <-. split; [|reflexivity].
    apply (proj1 (g_from_list_In _ c)) in Hc. apply in_concat in Hc as [l [Hl Hc]]. apply in_map_iff in Hl as [t [<- Ht]]. exists t. auto.
  - intros [[t [Ht Hc]] ->]. exists c. split; [reflexivity|]. apply (proj2 (g_from_list_In _ c)). apply in_concat. exists (categories o t). split; [apply in_map, Ht|exact Hc].
Qed.
