(* C05M.v — the transcription meets the executable statement of C05 on EVERY matrix: for all dimensions and
   all data, spec_C05 (CMat r c data) (run_C05 (CMat r c data)) = true (binary32 instance). *)
From Coq Require Import Lia.
From HpoV Require Import Model.Base Model.F32 Model.Matrix Model.Combine Spec.CombineSpec Run.C05 Proofs.SetsP Proofs.C05P.

Lemma resN_is_refl x : resN_is (Ok x) x = true.
Proof. apply N.eqb_refl. Qed.

Theorem spec_C05_matrix_model r c data : spec_C05 (CMat r c data) (run_C05 (CMat r c data)) = true.
Proof.
  unfold spec_C05, run_C05. set (m := mat_of r c data).
  destruct (calc3 m) as [[a x] b] eqn:E3.
  assert (wf_mat r c data = true -> res3_is (a, x, b) (ref3 m) = true /\
          (m_is_empty m = false ->
           resl_is (bitsl_res (c_rowmax m)) (map (fun l => to_bits (ref_max32 l)) (ref_rows32 m)) = true /\
           resl_is (bitsl_res (c_colmax m)) (map (fun l => to_bits (ref_max32 l)) (ref_cols32 m)) = true)) as K.
  { intros W. unfold wf_mat in W. apply andb_prop in W as [W Hc]. apply andb_prop in W as [Hl Hr].
    apply N.eqb_eq in Hl. apply N.leb_le in Hr, Hc.
    assert (wf_matrix m) as Wm.
    { unfold wf_matrix, m, mat_of. cbn [m_data m_rows m_cols]. rewrite map_length. unfold Nlen, nat_of in *. lia. }
    assert (N.of_nat (m_rows m) <= 65535)%N as Br by (unfold m, mat_of, nat_of; cbn [m_rows]; lia).
    assert (N.of_nat (m_cols m) <= 65535)%N as Bc by (unfold m, mat_of, nat_of; cbn [m_cols]; lia).
    split.
    - unfold calc3 in E3.
      rewrite !(calculate_is_documented_formula f32 fadd fdiv fmax fgt f_zero f_nzero f_two f_of_N _ m Wm Br Bc) in E3.
      cbn [bits_res canon_zero_res] in E3. injection E3 as <- <- <-. unfold ref3, res3_is.
      rewrite !resN_is_refl. reflexivity.
    - intros Hne.
      assert (0 < m_rows m /\ 0 < m_cols m)%nat as [Pr Pc].
      { unfold wf_matrix in Wm. unfold m_is_empty in Hne. destruct (m_data m) eqn:Ed; [discriminate|]. cbn [length] in Wm. nia. }
      unfold c_rowmax, c_colmax.
      rewrite (row_maxes_ref f32 fgt f_zero m Wm Pr Pc), (col_maxes_ref f32 fgt f_zero m Wm Pr Pc).
      cbn [bitsl_res resl_is]. rewrite !map_map. unfold ref_rows32, ref_cols32, ref_max32. rewrite !list_eqb_refl. auto. }
  destruct (m_is_empty m) eqn:Em; destruct (wf_mat r c data) eqn:W; try reflexivity.
  - destruct (K eq_refl) as [K1 _]. rewrite K1. reflexivity.
  - destruct (K eq_refl) as [K1 K2]. destruct (K2 eq_refl) as [K3 K4]. rewrite K1, K3, K4. reflexivity.
Qed.
