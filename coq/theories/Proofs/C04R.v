(* C04R.v — the eight built-in similarities over the reals: with information contents >= 0 and never
   larger on a common ancestor than on the two terms (C03: -ln(n/N) is antitone along is_a), every
   denominator the code divides by is positive under the code's own guards and every score is >= 0
   (Jiang-Conrath and Distance in (0,1]).  This is the exact-arithmetic content of "always a finite
   number >= 0"; the binary32 evaluation itself is executed bit for bit by the correspondence run. *)
From Coq Require Import Reals Lra Lia.
From HpoV Require Import Gen.Consts Model.Base Model.Group Model.Onto Model.Query Model.Similarity Proofs.BaseP Proofs.DistP.

Open Scope R_scope.

Definition rgt (x y : R) : bool := if Rgt_dec x y then true else false.
Definition ris0 (x : R) : bool := if Req_EM_T x 0 then true else false.
Definition r_of_u16 (n : N) : R := INR (N.to_nat n).
Definition rexp (x : R) : res R := Ok (exp x).

Section SimR.
  Variable ic : kind -> term -> R.
  (* T: the terms of the ontology at hand; the information contents need to be >= 0 only there *)
  Variable T : term -> Prop.
  Hypothesis ic_nonneg : forall k t, T t -> 0 <= ic k t.

  Definition simR := similarity R Rplus Rminus Rmult Rdiv rgt ris0 0 0 1 2 (-1) r_of_u16 rexp ic.

  Lemma sum_ic_nonneg k ts : Forall T ts -> 0 <= sum_ic R Rplus 0 ic k ts.
  Proof.
    unfold sum_ic. assert (forall acc, Forall T ts -> 0 <= acc -> 0 <= fold_left (fun acc t => acc + ic k t) ts acc) as K.
    { induction ts as [|t ts IH]; intros acc HT Ha; cbn [fold_left]; [exact Ha|]. inversion HT as [|? ? Ht HT']; subst.
      apply IH; [exact HT'|]. pose proof (ic_nonneg k t Ht). lra. }
    intros HT. apply K; [exact HT|lra].
  Qed.

  Lemma resnik_fold_bounds k cs : Forall T cs -> forall mx, 0 <= mx ->
    0 <= fold_left (fun mx t => if rgt (ic k t) mx then ic k t else mx) cs mx /\
    forall bound, mx <= bound -> (forall c, In c cs -> ic k c <= bound) ->
      fold_left (fun mx t => if rgt (ic k t) mx then ic k t else mx) cs mx <= bound.
  Proof.
    induction cs as [|c cs IH]; intros HT mx Hm; cbn [fold_left].
    - split; [exact Hm|]. intros bound Hb _. exact Hb.
    - inversion HT as [|? ? Hc0 HT']; subst. specialize (IH HT'). destruct (rgt (ic k c) mx).
      + destruct (IH (ic k c) (ic_nonneg k c Hc0)) as [H1 H2]. split; [exact H1|]. intros bound Hb Hc.
        apply H2; [apply Hc; left; reflexivity|intros c0 H0; apply Hc; right; exact H0].
      + destruct (IH mx Hm) as [H1 H2]. split; [exact H1|]. intros bound Hb Hc.
        apply H2; [exact Hb|intros c0 H0; apply Hc; right; exact H0].
  Qed.

  Lemma ris0_false x : ris0 x = false -> x <> 0.
  Proof. unfold ris0. destruct (Req_EM_T x 0); [discriminate|auto]. Qed.

  Lemma div_nonneg x y : 0 <= x -> 0 < y -> 0 <= x / y.
  Proof. intros Hx Hy. unfold Rdiv. apply Rmult_le_pos; [exact Hx|]. left. apply Rinv_0_lt_compat, Hy. Qed.

  Variable o : onto.
  Hypothesis resolved_in_T : forall g ts, resolve_all o g = Ok ts -> Forall T ts.

  Lemma resnik_nonneg k a b r : resnik R rgt 0 ic o k a b = Ok r -> 0 <= r.
  Proof.
    unfold resnik. intros H. apply bind_Ok' in H as [cs [Hcs H]]. injection H as <-.
    apply (resnik_fold_bounds k cs (resolved_in_T _ _ Hcs) 0 (Rle_refl 0)).
  Qed.

  Lemma lin_nonneg k a b r : T a -> T b -> lin R Rplus Rmult Rdiv rgt ris0 0 2 ic o k a b = Ok r -> 0 <= r.
  Proof.
    intros Ta Tb. unfold lin. destruct (ris0 (ic k a + ic k b)) eqn:E; [intros [= <-]; lra|].
    intros H. apply bind_Ok' in H as [x [Hx H]]. injection H as <-. apply ris0_false in E.
    pose proof (ic_nonneg k a Ta). pose proof (ic_nonneg k b Tb). pose proof (resnik_nonneg k a b x Hx).
    apply div_nonneg; lra.
  Qed.

  (* THE SCORES ARE NEVER NEGATIVE and every division is by a positive number.  Jiang-Conrath needs
     (the hypothesis says why it holds) that, when neither term has information content 0, no common
     ancestor is more informative than either term *)
  Theorem similarity_nonneg g k a b r : T a -> T b ->
    (ic k a <> 0 -> ic k b <> 0 ->
     forall cs, resolve_all o (all_common_ancestor_ids a b) = Ok cs -> forall c, In c cs -> ic k c <= ic k a /\ ic k c <= ic k b) ->
    simR g o k a b = Ok r -> 0 <= r.
  Proof.
    intros Ta Tb Hanc H. unfold simR, similarity in H. destruct g.
    - (* GraphIC *)
      unfold graphic in H. destruct (t_id a =? t_id b)%N; [injection H as <-; lra|].
      apply bind_Ok' in H as [us [Hus H]]. destruct (ris0 _) eqn:E; [injection H as <-; lra|].
      apply bind_Ok' in H as [cs [Hcs H]]. injection H as <-. apply ris0_false in E.
      pose proof (sum_ic_nonneg k us (resolved_in_T _ _ Hus)). pose proof (sum_ic_nonneg k cs (resolved_in_T _ _ Hcs)).
      apply div_nonneg; lra.
    - apply (resnik_nonneg k a b r H).
    - apply (lin_nonneg k a b r Ta Tb H).
    - (* Jiang-Conrath: 1 / (ic1 + ic2 - 2 res + 1), the denominator is >= 1 *)
      unfold jc in H. destruct (t_id a =? t_id b)%N; [injection H as <-; lra|].
      destruct (ris0 (ic k a)) eqn:Ea; [injection H as <-; lra|].
      destruct (ris0 (ic k b)) eqn:Eb; [injection H as <-; lra|]. cbn [orb] in H.
      apply ris0_false in Ea. apply ris0_false in Eb.
      apply bind_Ok' in H as [x [Hx H]]. injection H as <-.
      unfold resnik in Hx. apply bind_Ok' in Hx as [cs [Hcs Hx]]. injection Hx as <-.
      destruct (resnik_fold_bounds k cs (resolved_in_T _ _ Hcs) 0 (Rle_refl 0)) as [R0 RB].
      pose proof (RB (ic k a) (ic_nonneg k a Ta) (fun c Hc => proj1 (Hanc Ea Eb cs Hcs c Hc))) as Ba.
      pose proof (RB (ic k b) (ic_nonneg k b Tb) (fun c Hc => proj2 (Hanc Ea Eb cs Hcs c Hc))) as Bb.
      apply div_nonneg; lra.
    - (* Relevance: lin * (1 - exp (-res)) *)
      unfold relevance in H. apply bind_Ok' in H as [x [Hx H]]. apply bind_Ok' in H as [l [Hl H]].
      unfold rexp in H. cbn [bind] in H. injection H as <-.
      pose proof (resnik_nonneg k a b x Hx) as Rx. pose proof (lin_nonneg k a b l Ta Tb Hl) as Rl.
      apply Rmult_le_pos; [exact Rl|].
      assert (exp (x * -1) <= 1); [|lra]. rewrite <- exp_0. destruct (Req_dec x 0) as [->|Hne]; [right; f_equal; lra|].
      left. apply exp_increasing. lra.
    - (* Information coefficient: lin * (1 - 1 / (1 + res)) *)
      unfold infcoef in H. apply bind_Ok' in H as [x [Hx H]]. apply bind_Ok' in H as [l [Hl H]]. injection H as <-.
      pose proof (resnik_nonneg k a b x Hx) as Rx. pose proof (lin_nonneg k a b l Ta Tb Hl) as Rl.
      apply Rmult_le_pos; [exact Rl|].
      assert (1 / (1 + x) <= 1); [|lra]. unfold Rdiv. rewrite Rmult_1_l. rewrite <- Rinv_1 at 2. apply Rinv_le_contravar; lra.
    - (* Distance: 1 / (d + 1) *)
      unfold distance_sim in H. apply bind_Ok' in H as [d [_ H]]. destruct d as [n|]; [|injection H as <-; lra].
      unfold usize_f in H. destruct (65535 <? n)%N; [discriminate|]. cbn [bind] in H. injection H as <-.
      unfold r_of_u16. pose proof (pos_INR (N.to_nat n)). apply div_nonneg; lra.
    - (* Mutation: |common| / |union| *)
      unfold mutation in H. destruct (t_id a =? t_id b)%N; [injection H as <-; lra|].
      destruct (t_annots k a ++ filter _ (t_annots k b)) as [|u0 ul] eqn:Eu; [injection H as <-; lra|].
      unfold usize_f in H. destruct (65535 <? Nlen _)%N; [discriminate|]. cbn [bind] in H.
      destruct (65535 <? Nlen (u0 :: ul))%N; [discriminate|]. cbn [bind] in H. injection H as <-.
      unfold r_of_u16. apply div_nonneg; [apply pos_INR|].
      unfold Nlen. rewrite Nat2N.id. cbn [length]. rewrite S_INR. pose proof (pos_INR (length ul)). lra.
  Qed.
End SimR.
