(* BuilderICP.v — C03 for every Builder script: in the finished ontology every term's information
   content is, for each kind, InformationContent::calculate (number of records of the kind, number
   of the term's annotations of the kind) — where those annotations are exactly the inherited set
   (BuilderAnnotP.run_script_ann_ok). *)
From Coq Require Import Lia.
From HpoV Require Import Gen.Consts Model.Base Model.Group Model.Onto Model.Query Model.Dump Model.Script
  Proofs.BaseP Proofs.C03W Proofs.DistP Proofs.AnnotP Proofs.QgoodP.

Theorem run_script_ic icf s codes o : run_script icf s = Ok (codes, Ok o) ->
  forall t, In t (ar_terms (o_arena o)) -> forall k,
    icf (Nlen (o_records k o)) (Nlen (t_annots k t)) = Ok (ic_of k (t_ic t)).
Proof.
  destruct s as [[[[ver terms] parents] annots] kindb]. unfold run_script. intros H.
  apply bind_Ok' in H as [[ob cs] [Hb H]].
  unfold finish in H. destruct (b_calculate_ic icf ob) as [o5| | |] eqn:E5; cbn [bind] in H; try discriminate.
  destruct (calculate_ic_spec icf ob o5 E5) as (Rec & _ & _ & _ & _ & F).
  assert (forall t, In t (ar_terms (o_arena o5)) -> forall k, icf (Nlen (o_records k o5)) (Nlen (t_annots k t)) = Ok (ic_of k (t_ic t))) as K5.
  { intros t' Ht' k. destruct (Forall2_In_r _ _ _ t' F Ht') as [t [Ht [Et Hic]]]. rewrite Rec, Et, annots_set_ic.
    specialize (Hic k). assert (t_ic (set_ic (t_ic t') t) = t_ic t') as -> by (destruct t; reflexivity). exact Hic. }
  assert (forall o6, o_arena o6 = o_arena o5 -> (forall k, o_records k o6 = o_records k o5) ->
            forall t, In t (ar_terms (o_arena o6)) -> forall k, icf (Nlen (o_records k o6)) (Nlen (t_annots k t)) = Ok (ic_of k (t_ic t))) as Fin.
  { intros o6 Ea Er t Ht k. rewrite Er. rewrite Ea in Ht. apply (K5 t Ht k). }
  destruct (kindb =? 0).
  - injection H as _ <-. apply Fin; [reflexivity|intros k; destruct k; reflexivity].
  - destruct (b_build_with_defaults o5) as [o6| | |] eqn:E6; try discriminate. injection H as _ <-.
    apply Fin; [apply (build_with_defaults_arena o5 o6 E6)|].
    unfold b_build_with_defaults, set_default_categories, set_default_modifier in E6.
    destruct (o_get ROOT_ID_CAT (b_build_minimal o5)); [|discriminate].
    destruct (o_get PHENOTYPE_ID (b_build_minimal o5)); [|discriminate]. cbn [bind] in E6.
    match type of E6 with context [o_get ROOT_ID ?x] => destruct (o_get ROOT_ID x) end; [|discriminate].
    injection E6 as <-. intros k; destruct k; reflexivity.
Qed.
