(* Properties/C03.v — information content equals -ln(n/N) (C03).
   Real-number layer (the documented formula) and the guards of the f32 implementation.
   The f32 evaluation itself (one division, the platform's logf, one multiplication) is executed
   bit-exactly by the correspondence run; `logf` is an oracle (see DESIGN.md §2.6): this part of
   the property is therefore *partial* as far as theorems go. *)
From Coq Require Import Reals.
From HpoV Require Import Model.Base Model.F32 Model.IC Proofs.C03P.

Theorem C03_formula_nonnegative : forall n total, (n <= total)%nat -> (0 <= icR n total)%R.
Proof. exact icR_nonneg. Qed.

Theorem C03_formula_antitone : forall n1 n2 total, (0 < n1)%nat -> (n1 <= n2)%nat ->
  (icR n2 total <= icR n1 total)%R.
Proof. exact icR_antitone. Qed.

Theorem C03_formula_zero : forall n total, (n = 0 \/ total = 0)%nat -> icR n total = 0%R.
Proof. exact icR_zero. Qed.

Theorem C03_formula_all_records : forall n, icR n n = 0%R.
Proof. exact icR_all. Qed.

Theorem C03_f32_zero_guard : forall fln total current, total = 0 \/ current = 0 ->
  ic32 fln total current = Ok 0.
Proof. exact ic32_zero. Qed.

Theorem C03_f32_conversion_guard : forall fln total current, total <> 0 -> current <> 0 ->
  U16_MAX < total \/ U16_MAX < current -> ic32 fln total current = Err TryFromIntError.
Proof. exact ic32_too_large. Qed.

Theorem C03_f32_formula : forall fln total current, total <> 0 -> current <> 0 ->
  total <= U16_MAX -> current <= U16_MAX ->
  ic32 fln total current =
    match fln (to_bits (fdiv (f_of_N current) (f_of_N total))) with
    | Some r => Ok (to_bits (fmul (of_bits r) f_mone))
    | None => Err OracleMissing
    end.
Proof. exact ic32_formula. Qed.

Print Assumptions C03_formula_nonnegative.
Print Assumptions C03_formula_antitone.
Print Assumptions C03_formula_zero.
Print Assumptions C03_formula_all_records.
Print Assumptions C03_f32_zero_guard.
Print Assumptions C03_f32_conversion_guard.
Print Assumptions C03_f32_formula.
