(* Properties/C03.v — information content equals -ln(n/N) (C03).
   Real-number layer (the documented formula) and the guards of the f32 implementation.
   The f32 evaluation itself (one division, the platform's logf, one multiplication) is executed
   bit-exactly by the correspondence run; `logf` is an oracle (see DESIGN.md §2.6): this part of
   the property is therefore *partial* as far as theorems go. *)
From Coq Require Import Reals.
From HpoV Require Import Gen.Consts Model.Base Model.Group Model.Onto Model.F32 Model.IC Model.Script Model.Bulk Proofs.C03P Proofs.C03W Proofs.BulkP Proofs.BuilderICP Proofs.AcyclicP Proofs.AnnotP Proofs.BuilderAnnotP Proofs.ReloadP Proofs.AllPathsP.

Theorem C03_formula_nonnegative : forall n total, (n <= total)%nat -> (0 <= icR n total)%R.
Proof. exact icR_nonneg. Qed.

Theorem C03_formula_antitone : forall n1 n2 total, (0 < n1)%nat -> (n1 <= n2)%nat ->
  (icR n2 total <= icR n1 total)%R.
Proof. exact icR_antitone. Qed.

Theorem C03_formula_zero : forall n total, (n = 0 \/ total = 0)%nat -> icR n total = 0%R.
Proof. exact icR_zero. Qed.

Theorem C03_formula_all_records : forall n, icR n n = 0%R.
Proof. exact icR_all. Qed.

Theorem C03_f32_zero_guard : forall fln total current, total = 0 \/ current = 0 ->
  ic32 fln total current = Ok 0.
Proof. exact ic32_zero. Qed.

Theorem C03_f32_conversion_guard : forall fln total current, total <> 0 -> current <> 0 ->
  U16_MAX < total \/ U16_MAX < current -> ic32 fln total current = Err TryFromIntError.
Proof. exact ic32_too_large. Qed.

Theorem C03_f32_formula : forall fln total current, total <> 0 -> current <> 0 ->
  total <= U16_MAX -> current <= U16_MAX ->
  ic32 fln total current =
    match fln (to_bits (fdiv (f_of_N current) (f_of_N total))) with
    | Some r => Ok (to_bits (fmul (of_bits r) f_mone))
    | None => Err OracleMissing
    end.
Proof. exact ic32_formula. Qed.

(* THE WHOLE ONTOLOGY: calculate_information_content gives every term, for each of the three kinds
   independently, InformationContent::calculate (number of records of THAT kind, number of the
   term's annotations of THAT kind) and touches nothing else *)
Theorem C03_every_term_every_kind : forall icf o o', b_calculate_ic icf o = Ok o' ->
  (forall k, o_records k o' = o_records k o) /\ o_version o' = o_version o /\
  o_cat o' = o_cat o /\ o_mod o' = o_mod o /\ ar_ph (o_arena o') = ar_ph (o_arena o) /\
  Forall2 (fun t t' => t' = set_ic (t_ic t') t /\
                       forall k, icf (Nlen (o_records k o)) (Nlen (t_annots k t)) = Ok (ic_of k (t_ic t')))
          (ar_terms (o_arena o)) (ar_terms (o_arena o')).
Proof. exact calculate_ic_spec. Qed.

(* more than 65 535 records of a kind that some term carries: no ontology is built *)
Theorem C03_refuses_over_u16 : forall fln o k t, In t (ar_terms (o_arena o)) ->
  U16_MAX < Nlen (o_records k o) -> t_annots k t <> [] ->
  forall o', b_calculate_ic (ic32 fln) o <> Ok o'.
Proof. exact calculate_ic_refuses_large. Qed.

(* the correspondence run reaches that limit with a block of add_* calls that the model appends at
   once (Model/Bulk.v); the block IS the run of calls, for every first id, count and builder state *)
Theorem C03_bulk_block_is_calls : forall k first count o, bulk_add k first count o = bulk_slow k first count o.
Proof. exact bulk_add_is_calls. Qed.

Theorem C03_bulk_script : forall icf s tag first count, tag <? 3 = true ->
  run_script_bulk icf s tag first count = run_script icf (with_bulk s tag first count).
Proof. exact run_script_bulk_is_script. Qed.

(* THE PROPERTY FOR EVERY BUILDER SCRIPT: in the finished ontology, for every term and each kind
   independently, the information content is InformationContent::calculate (N, n) with N the number
   of records of that kind and n the number of the term's annotations of that kind — and those
   annotations are exactly the inherited set (second theorem: sorted, hence counted without
   repetition; exactly the ids with a direct fact at the term or at one of its descendants) *)
Theorem C03_builder_information_content : forall icf s codes o, run_script icf s = Ok (codes, Ok o) ->
  forall t, In t (ar_terms (o_arena o)) -> forall k,
    icf (Nlen (o_records k o)) (Nlen (t_annots k t)) = Ok (ic_of k (t_ic t)).
Proof. exact run_script_ic. Qed.

Theorem C03_builder_counts_are_the_inherited_sets : forall icf s codes o, run_script icf s = Ok (codes, Ok o) ->
  acyclic (o_arena o) /\ ann_ok o.
Proof. exact run_script_ann_ok. Qed.

(* EACH CONSTRUCTION PATH ([constructed], Proofs/AllPathsP.v): the information content of every term
   and kind is calculate (number of records of the kind, size of the term's inherited set) *)
Theorem C03_every_constructed_ontology : forall icf o, constructed icf o -> ic_ok icf o.
Proof. exact constructed_ic. Qed.

Print Assumptions C03_formula_nonnegative.
Print Assumptions C03_formula_antitone.
Print Assumptions C03_formula_zero.
Print Assumptions C03_formula_all_records.
Print Assumptions C03_f32_zero_guard.
Print Assumptions C03_f32_conversion_guard.
Print Assumptions C03_f32_formula.
Print Assumptions C03_every_term_every_kind.
Print Assumptions C03_refuses_over_u16.
Print Assumptions C03_bulk_block_is_calls.
Print Assumptions C03_bulk_script.
Print Assumptions C03_builder_information_content.
Print Assumptions C03_builder_counts_are_the_inherited_sets.
Print Assumptions C03_every_constructed_ontology.
