(* Properties/C06.v — enrichment (C06).
   Theorems about the Gallina transcription of stats.rs / hypergeom/*.rs with the p-value in exact
   arithmetic.  PARTIAL: the crate evaluates the tail in f64 through ln_gamma / ln / exp (libm):
   no theorem covers that evaluation; spec_C06 compares the crate's f64 with the exact tail
   (relative 10^-9), checks 0 <= p <= 1 and monotonicity in k on the crate's values, and the fold
   enrichment bit for bit (Flocq binary64). *)
From HpoV Require Import Gen.Consts Model.Base Model.Group Model.Onto Model.Query Model.F64 Model.Enrich Proofs.C06P Proofs.BinomP Proofs.C06T.

(* SampleSet: size = number of terms; count(g) = number of links between g and the terms *)
Theorem C06_counts : forall o k terms sz c, calculate_counts o k terms = Ok (sz, c) ->
  sz = Nlen terms /\ (forall x v, In (x, v) c -> 0 < v) /\
  forall g, cval g c = fold_right (fun t acc => occ g (t_annots k t) + acc) 0 terms.
Proof. exact calculate_counts_exact. Qed.

(* P[X >= k+1] <= P[X >= k]: the exact tail never increases as k grows (N, K, n fixed) *)
Theorem C06_exact_tail_antitone : forall pop succ draws x,
  hg_min pop succ draws <= x -> x + 1 < hg_max succ draws ->
  fst (sf_exact pop succ draws (x + 1)) <= fst (sf_exact pop succ draws x)
  /\ snd (sf_exact pop succ draws (x + 1)) = snd (sf_exact pop succ draws x).
Proof. exact sf_exact_antitone_in_branch. Qed.

Theorem C06_sf_below_min_is_one : forall pop succ draws x, x < hg_min pop succ draws -> sf_exact pop succ draws x = (1, 1).
Proof. exact sf_exact_below_min. Qed.

Theorem C06_sf_at_max_is_zero : forall pop succ draws x, hg_min pop succ draws <= x -> hg_max succ draws <= x ->
  sf_exact pop succ draws x = (0, 1).
Proof. exact sf_exact_at_max. Qed.

(* the model's quotient n^(k) / k! is the binomial coefficient (Pascal's rule) *)
Theorem C06_binomial : forall n k, binN (N.of_nat n) (N.of_nat k) = C n k.
Proof. exact binN_is_binomial. Qed.

(* Vandermonde: sum_i C(a,i) C(b,n-i) = C(a+b,n) — the hypergeometric probabilities sum to 1 *)
Theorem C06_vandermonde : forall a b n, vdm a b n = C (a + b) n.
Proof. exact vandermonde. Qed.

(* THE EXACT P-VALUE LIES IN [0,1] for every population, K <= N, n <= N, and every k *)
Theorem C06_exact_pvalue_in_unit_interval : forall P K n x, (K <= P)%nat -> (n <= P)%nat ->
  let r := sf_exact (N.of_nat P) (N.of_nat K) (N.of_nat n) (N.of_nat x) in fst r <= snd r /\ 0 < snd r.
Proof. exact sf_exact_in_unit_interval. Qed.

(* at or below the lower end of the support the tail is the whole distribution (the code's
   `x < min => 1` branch agrees with the sum) *)
Theorem C06_tail_below_support_is_one : forall P K n lo, (K <= P)%nat -> (n <= P)%nat -> (lo <= n + K - P)%nat ->
  sumN (fun i => C K i * C (P - K) (n - i)) lo (S (Nat.min K n) - lo) = C P n.
Proof. exact tail_below_min_is_one. Qed.

(* the recurrences the check executes (exact small multiplications / divisions) compute the
   definitional tail, for EVERY population size *)
Theorem C06_executed_tail_is_exact_tail : forall P K n x, (K <= P)%nat -> (n <= P)%nat ->
  sf_fast (N.of_nat P) (N.of_nat K) (N.of_nat n) (N.of_nat x) = sf_exact (N.of_nat P) (N.of_nat K) (N.of_nat n) (N.of_nat x).
Proof. exact sf_fast_is_sf_exact. Qed.

(* TOTALITY: the enrichment returns (one record per annotation of the sample) when every annotation id of
   the terms resolves to a record, the sample is not larger than the background and no annotation is
   linked more often in the sample than in the background — as for every sample drawn from the
   background; none of the expect() calls of stats/hypergeom panics *)
Theorem C06_enrichment_returns : forall o k background sample,
  (forall t, In t background -> resolves o k t) -> (forall t, In t sample -> resolves o k t) ->
  (forall t, In t background -> NoDup (t_annots k t)) ->
  Nlen sample <= Nlen background -> Nlen background <= 4294967295 ->
  (forall g, links k g sample <= links k g background) ->
  exists recs, enrichment o k background sample = Ok recs.
Proof. exact enrichment_total. Qed.

Print Assumptions C06_counts.
Print Assumptions C06_binomial.
Print Assumptions C06_vandermonde.
Print Assumptions C06_exact_pvalue_in_unit_interval.
Print Assumptions C06_tail_below_support_is_one.
Print Assumptions C06_executed_tail_is_exact_tail.
Print Assumptions C06_exact_tail_antitone.
Print Assumptions C06_sf_below_min_is_one.
Print Assumptions C06_sf_at_max_is_zero.
Print Assumptions C06_enrichment_returns.
