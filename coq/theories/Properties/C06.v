(* Properties/C06.v — enrichment (C06).
   Theorems about the Gallina transcription of stats.rs / hypergeom/*.rs with the p-value in exact
   arithmetic.  PARTIAL: the crate evaluates the tail in f64 through ln_gamma / ln / exp (libm):
   no theorem covers that evaluation; spec_C06 compares the crate's f64 with the exact tail
   (relative 10^-9), checks 0 <= p <= 1 and monotonicity in k on the crate's values, and the fold
   enrichment bit for bit (Flocq binary64). *)
From HpoV Require Import Gen.Consts Model.Base Model.Group Model.Onto Model.Query Model.F64 Model.Enrich Proofs.C06P.

(* SampleSet: size = number of terms; count(g) = number of links between g and the terms *)
Theorem C06_counts : forall o k terms sz c, calculate_counts o k terms = Ok (sz, c) ->
  sz = Nlen terms /\ (forall x v, In (x, v) c -> 0 < v) /\
  forall g, cval g c = fold_right (fun t acc => occ g (t_annots k t) + acc) 0 terms.
Proof. exact calculate_counts_exact. Qed.

(* P[X >= k+1] <= P[X >= k]: the exact tail never increases as k grows (N, K, n fixed) *)
Theorem C06_exact_tail_antitone : forall pop succ draws x,
  hg_min pop succ draws <= x -> x + 1 < hg_max succ draws ->
  fst (sf_exact pop succ draws (x + 1)) <= fst (sf_exact pop succ draws x)
  /\ snd (sf_exact pop succ draws (x + 1)) = snd (sf_exact pop succ draws x).
Proof. exact sf_exact_antitone_in_branch. Qed.

Theorem C06_sf_below_min_is_one : forall pop succ draws x, x < hg_min pop succ draws -> sf_exact pop succ draws x = (1, 1).
Proof. exact sf_exact_below_min. Qed.

Theorem C06_sf_at_max_is_zero : forall pop succ draws x, hg_min pop succ draws <= x -> hg_max succ draws <= x ->
  sf_exact pop succ draws x = (0, 1).
Proof. exact sf_exact_at_max. Qed.

(* the recurrences the check executes agree with the definitional tail — BOUNDED: all populations
   up to 22 with every K, n, x (evaluation of the finite domain); unproved beyond *)
Theorem C06_executed_tail_agrees_bounded : forall pop succ draws x,
  pop <= 22 -> succ <= pop -> draws <= pop -> x <= pop + 1 ->
  sf_fast pop succ draws x = sf_exact pop succ draws x.
Proof. exact sf_fast_agrees_small. Qed.

Print Assumptions C06_counts.
Print Assumptions C06_executed_tail_agrees_bounded.
Print Assumptions C06_exact_tail_antitone.
Print Assumptions C06_sf_below_min_is_one.
Print Assumptions C06_sf_at_max_is_zero.
