(* Properties/C07.v — binary round trip (C07, partial).
   Proved: the codec's integer layer (big-endian u32 round trip), the name cut (never beyond the
   documented limit, never longer than the name, identity on names that fit, and the limit fits
   the one-byte length field), and that the writer's header is one the reader accepts.
   Section level and whole file: what as_bytes writes is read back by from_bytes as the Builder
   pipeline run on the raw facts the file carries (C07_decode_encode_is_rebuild) — the file layer
   is transparent, for any number of terms and records; and the reload keeps the whole TERM
   STRUCTURE (ids, names, flags, parents, children, ancestor caches: C07_reload_keeps_terms).
   and the ANNOTATION SETS of every term (C07_reload_keeps_annotations, for acyclic sources whose
   sets are the propagation of their records' direct facts), the information content, the record
   maps, the version and the default sets: C07_builder_roundtrip_complete states all of it for every
   ontology a Builder script produces, with no remaining hypothesis but "the format can carry it".
   The same statement is proved for ANY source with the structural statements (C07_roundtrip_any_source),
   for every ontology loaded from JAX text files with a closed hp.obo (C07_jax_roundtrip_complete) and
   for every sub-ontology of an ontology with exact caches (C07_sub_ontology_roundtrip_complete). *)
From Coq Require Import Permutation.
From HpoV Require Import Gen.Consts Model.Base Model.Group Model.Onto Model.Binary Proofs.GroupP Proofs.BinaryP Proofs.CodecP Proofs.SectionP Proofs.RoundTripP Proofs.ClosureP Proofs.LinkP Proofs.AcyclicP Proofs.AnnotP Proofs.BuilderAnnotP Proofs.ReloadP Proofs.RoundTripAllP Proofs.RoundTripSrcP Proofs.AllPathsP Proofs.TotalReloadP Proofs.DistP Proofs.JaxP Model.Script Model.Text Model.SubOnt.

Theorem C07_u32_roundtrip : forall n rest, n < 4294967296 -> u32_at (to_be32 n ++ rest) 0 = Ok n.
Proof. exact u32_at_to_be32. Qed.

Theorem C07_name_cut_bounds : forall limit s, cut_len limit s <= limit /\ cut_len limit s <= Nlen s.
Proof. exact cut_len_le. Qed.

Theorem C07_name_cut_identity : forall limit s, Nlen s <= limit -> cut_len limit s = Nlen s.
Proof. exact cut_len_fits. Qed.

Theorem C07_name_limits_fit_one_byte : TERM_NAME_LIMIT < 256 /\ GENE_NAME_LIMIT < 256.
Proof. exact name_limits_fit_one_byte. Qed.

Theorem C07_header_accepted : mem EMIT_VERSION ACCEPTED_VERSIONS = true /\ MAGIC_WRITER = MAGIC_READER.
Proof. exact writer_version_accepted. Qed.

(* ---- record-level round trips (what the writer emits for one record is read back as that record) ---- *)

Theorem C07_term_record_roundtrip : forall t rest,
  t_id t < 4294967296 -> repl_ok (t_repl t) -> utf8_valid (cut_name TERM_NAME_LIMIT (t_name t)) = true ->
  u32_at (enc_term t ++ rest) 0 = Ok (Nlen (enc_term t)) /\
  term_v2 (enc_term t ++ rest) =
    Ok (set_flags (t_obsolete t) (t_repl t) (new_term (cut_name TERM_NAME_LIMIT (t_name t)) (t_id t))).
Proof. exact term_record_roundtrip. Qed.

Theorem C07_gene_record_roundtrip : forall r,
  a_id r < 4294967296 -> Forall (fun x => x < 4294967296) (a_hpos r) -> Nlen (a_hpos r) < 1000000000 ->
  sorted (a_hpos r) -> utf8_valid (cut_name GENE_NAME_LIMIT (a_name r)) = true ->
  gene_of_bytes (enc_gene r) = Ok (mkAnnot (a_id r) (cut_name GENE_NAME_LIMIT (a_name r)) (a_hpos r)).
Proof. exact gene_record_roundtrip. Qed.

Theorem C07_disease_record_roundtrip : forall r,
  a_id r < 4294967296 -> Forall (fun x => x < 4294967296) (a_hpos r) -> Nlen (a_hpos r) < 500000000 ->
  Nlen (a_name r) < 1000000000 -> sorted (a_hpos r) -> utf8_valid (a_name r) = true ->
  disease_of_bytes (enc_disease r) = Ok (mkAnnot (a_id r) (a_name r) (a_hpos r)).
Proof. exact disease_record_roundtrip. Qed.

(* a valid UTF-8 name cut at a char boundary is valid UTF-8 (what the fix of F6 relies on), and a
   name within the limit is not cut at all *)
Theorem C07_cut_name_stays_valid : forall limit name, utf8_valid name = true ->
  is_char_boundary name (cut_len limit name) = true -> utf8_valid (cut_name limit name) = true.
Proof. exact cut_name_valid. Qed.
Theorem C07_short_name_not_cut : forall limit name, Nlen name <= limit -> cut_name limit name = name.
Proof. exact cut_name_fits. Qed.

(* ---- section level: any number of records ---- *)

Theorem C07_term_section : forall v ts, v <> V1 -> Forall term_rec_ok ts ->
  forall fuel a, (length ts < fuel)%nat ->
  read_terms fuel v (concat (map enc_term ts)) a = foldM (fun a t => ar_insert (raw_term t) a) ts a.
Proof. exact read_terms_section. Qed.

Theorem C07_parent_section : forall ts, Forall parent_rec_ok ts ->
  forall fuel (pre : bytes) a, (length ts < fuel)%nat ->
  read_parents fuel (pre ++ concat (map enc_parents ts)) (Nlen pre) a
  = foldM (fun a t => foldM (fun a p => b_add_parent_unchecked p (t_id t) a) (t_parents t) a) ts a.
Proof. exact read_parents_section. Qed.

Theorem C07_record_section : forall k rs, Forall (record_ok k) rs ->
  forall fuel (pre : bytes) o, (length rs < fuel)%nat ->
  read_records fuel k (pre ++ concat (map (enc_record k) rs)) (Nlen pre) o
  = foldM (load_record k) (map (raw_record k) rs) o.
Proof. exact read_records_section. Qed.

(* ---- the whole file: from_bytes (as_bytes o) = the Builder pipeline on o's raw facts, whatever
   order the HashMaps emit the records in ---- *)
Theorem C07_decode_encode_is_rebuild : forall icf order o, file_ok order o ->
  decode icf (encode_with order o) = rebuild icf order o.
Proof. exact decode_encode_is_rebuild. Qed.

(* ---- what the reload keeps: the whole term structure ----
   for every ontology with exact caches and children = parents^-1 (every Builder-built one:
   C07_builder_ontologies_are_sources) that the format can carry (file_ok), in whatever order the
   records are written: every term comes back at the same position with the same id, name (cut at
   the format's limit), obsolete flag, replacement, direct parents, children and ancestor cache *)
Theorem C07_reload_keeps_terms : forall icf order o o'', file_ok order o -> src_ok o ->
  decode icf (encode_with order o) = Ok o'' ->
  Forall2 term_kept (ar_terms (o_arena o)) (ar_terms (o_arena o'')).
Proof. exact reload_keeps_terms. Qed.

Theorem C07_builder_ontologies_are_sources : forall icf s codes o, run_script icf s = Ok (codes, Ok o) -> src_ok o.
Proof. exact run_script_src_ok. Qed.

(* ... and the ANNOTATION SETS of every term: if in the source every term carries exactly the
   annotations with a direct fact at the term or at one of its descendants (ann_ok: the C02 statement)
   and the is_a graph is acyclic, then after the reload every term carries, for each of the three
   kinds, exactly the same set — whatever permutation of the records the file holds *)
Theorem C07_reload_keeps_annotations : forall icf order o o'', file_ok order o -> src_ok o ->
  acyclic (o_arena o) -> ann_ok o -> (forall l r, In r (order l) <-> In r l) ->
  decode icf (encode_with order o) = Ok o'' ->
  Forall2 (fun t t'' => forall k, t_annots k t'' = t_annots k t) (ar_terms (o_arena o)) (ar_terms (o_arena o'')).
Proof. exact reload_keeps_annotations. Qed.

(* ALL HYPOTHESES DISCHARGED FOR BUILDER-BUILT ONTOLOGIES: whatever script built o (any calls, any
   order, failing calls included), if the format can carry o then from_bytes (as_bytes o) — for any
   permutation of the records — returns every term with the same id, name (cut at the limit), flags,
   parents, children, ancestor cache and the same three annotation sets *)
Theorem C07_builder_ontologies_roundtrip : forall icf icf' s codes o order o'',
  run_script icf s = Ok (codes, Ok o) ->
  file_ok order o -> (forall l r, In r (order l) <-> In r l) ->
  decode icf' (encode_with order o) = Ok o'' ->
  Forall2 term_kept (ar_terms (o_arena o)) (ar_terms (o_arena o'')) /\
  Forall2 (fun t t'' => forall k, t_annots k t'' = t_annots k t) (ar_terms (o_arena o)) (ar_terms (o_arena o'')).
Proof. exact builder_ontologies_roundtrip. Qed.

(* THE WHOLE PROPERTY FOR EVERY BUILDER-BUILT ONTOLOGY.  Whatever script built o (any calls, any
   order, failing calls included): if the format can carry o, then for every permutation of the
   records in the file, a reload with the same information-content function returns
   (1) every term at the same position with the same id, name (cut at the limit), flags, parents,
       children and ancestor cache, (2) the same three annotation sets, (3) the same information
   content, (4) exactly the records written (gene names cut at the limit) in file order and the
   release version, (5) the same category / modifier sets if the script ended in
   build_with_defaults (whose result is a fixed point: second theorem) *)
Theorem C07_builder_roundtrip_complete : forall icf s codes o order o'',
  run_script icf s = Ok (codes, Ok o) -> file_ok order o -> (forall l, Permutation (order l) l) ->
  decode icf (encode_with order o) = Ok o'' ->
  Forall2 term_kept (ar_terms (o_arena o)) (ar_terms (o_arena o'')) /\
  Forall2 (fun t t'' => forall k, t_annots k t'' = t_annots k t) (ar_terms (o_arena o)) (ar_terms (o_arena o'')) /\
  Forall2 (fun t t'' => t_ic t'' = t_ic t) (ar_terms (o_arena o)) (ar_terms (o_arena o'')) /\
  (forall k, o_records k o'' = map (raw_record k) (order (o_records k o))) /\ o_version o'' = o_version o /\
  (b_build_with_defaults o = Ok o -> o_cat o'' = o_cat o /\ o_mod o'' = o_mod o).
Proof. exact builder_roundtrip_complete. Qed.

Theorem C07_builder_defaults_fixed : forall icf s codes o, run_script icf s = Ok (codes, Ok o) ->
  (let '(_, _, _, _, kindb) := s in kindb =? 0) = false -> b_build_with_defaults o = Ok o.
Proof. exact builder_defaults_fixed. Qed.

(* the round trip for ANY source: exact caches with children = parents^-1 (src_ok), acyclic,
   annotation sets = inherited direct facts (ann_ok), IC = calculate(N, n) (ic_ok), distinct record ids *)
Theorem C07_roundtrip_any_source : forall icf order o o'',
  src_ok o -> acyclic (o_arena o) -> ann_ok o -> ic_ok icf o -> (forall k, NoDup (map a_id (o_records k o))) ->
  file_ok order o -> (forall l, Permutation (order l) l) ->
  decode icf (encode_with order o) = Ok o'' ->
  Forall2 term_kept (ar_terms (o_arena o)) (ar_terms (o_arena o'')) /\
  Forall2 (fun t t'' => forall k, t_annots k t'' = t_annots k t) (ar_terms (o_arena o)) (ar_terms (o_arena o'')) /\
  Forall2 (fun t t'' => t_ic t'' = t_ic t) (ar_terms (o_arena o)) (ar_terms (o_arena o'')) /\
  (forall k, o_records k o'' = map (raw_record k) (order (o_records k o))) /\ o_version o'' = o_version o /\
  (b_build_with_defaults o = Ok o -> o_cat o'' = o_cat o /\ o_mod o'' = o_mod o).
Proof. exact roundtrip_complete. Qed.

(* ... every ontology loaded by from_standard / from_standard_transitive from files whose hp.obo
   has a stanza for every is_a target is such a source (defaults included) *)
Theorem C07_jax_roundtrip_complete : forall icf tr obo genes hpoa o order o'',
  obo_closed obo -> load_jax icf tr obo genes hpoa = Ok o ->
  file_ok order o -> (forall l, Permutation (order l) l) ->
  decode icf (encode_with order o) = Ok o'' ->
  Forall2 term_kept (ar_terms (o_arena o)) (ar_terms (o_arena o'')) /\
  Forall2 (fun t t'' => forall k, t_annots k t'' = t_annots k t) (ar_terms (o_arena o)) (ar_terms (o_arena o'')) /\
  Forall2 (fun t t'' => t_ic t'' = t_ic t) (ar_terms (o_arena o)) (ar_terms (o_arena o'')) /\
  (forall k, o_records k o'' = map (raw_record k) (order (o_records k o))) /\ o_version o'' = o_version o /\
  o_cat o'' = o_cat o /\ o_mod o'' = o_mod o.
Proof. exact jax_roundtrip_complete. Qed.

(* ... and so is every sub-ontology of an ontology with exact caches (sub_ontology ends in
   build_minimal: there are no default sets to keep) *)
Theorem C07_sub_ontology_roundtrip_complete : forall icf o root leaves o' order o'', qgood o ->
  (forall l, In l leaves -> In l (ar_keys (o_arena o))) -> sub_ontology icf o root leaves = Ok o' ->
  file_ok order o' -> (forall l, Permutation (order l) l) ->
  decode icf (encode_with order o') = Ok o'' ->
  Forall2 term_kept (ar_terms (o_arena o')) (ar_terms (o_arena o'')) /\
  Forall2 (fun t t'' => forall k, t_annots k t'' = t_annots k t) (ar_terms (o_arena o')) (ar_terms (o_arena o'')) /\
  Forall2 (fun t t'' => t_ic t'' = t_ic t) (ar_terms (o_arena o')) (ar_terms (o_arena o'')) /\
  (forall k, o_records k o'' = map (raw_record k) (order (o_records k o'))) /\ o_version o'' = o_version o'.
Proof. exact sub_roundtrip_complete. Qed.

(* "FOR ALL ONTOLOGIES REACHABLE THROUGH THE PUBLIC CONSTRUCTORS": every [constructed] ontology
   (Proofs/AllPathsP.v: Builder API, JAX loaders, from_bytes on a well-formed file, sub_ontology of
   any such ontology, nested to any depth) that the format can carry round-trips *)
Theorem C07_every_constructed_ontology_roundtrips : forall icf o order o'', constructed icf o ->
  file_ok order o -> (forall l, Permutation (order l) l) -> decode icf (encode_with order o) = Ok o'' ->
  Forall2 term_kept (ar_terms (o_arena o)) (ar_terms (o_arena o'')) /\
  Forall2 (fun t t'' => forall k, t_annots k t'' = t_annots k t) (ar_terms (o_arena o)) (ar_terms (o_arena o'')) /\
  Forall2 (fun t t'' => t_ic t'' = t_ic t) (ar_terms (o_arena o)) (ar_terms (o_arena o'')) /\
  (forall k, o_records k o'' = map (raw_record k) (order (o_records k o))) /\ o_version o'' = o_version o /\
  (b_build_with_defaults o = Ok o -> o_cat o'' = o_cat o /\ o_mod o'' = o_mod o).
Proof. exact constructed_roundtrip. Qed.

(* "SERIALISATION NEVER EMITS BYTES THAT THE LOADER REJECTS OR PANICS ON": for every well-formed source
   that contains the two standard root terms and that the format can carry, from_bytes (as_bytes o)
   RETURNS an ontology (every fuelled recursion has enough fuel, no lookup fails) ... *)
Theorem C07_writer_output_is_accepted : forall icf order o,
  file_ok order o -> src_ok o -> acyclic (o_arena o) -> ann_ok o -> ic_ok icf o -> (forall k, NoDup (map a_id (o_records k o))) ->
  (forall k r d, In r (o_records k o) -> In d (a_hpos r) -> In d (ar_keys (o_arena o))) ->
  (forall l, Permutation (order l) l) ->
  In ROOT_ID (ar_keys (o_arena o)) -> In PHENOTYPE_ID (ar_keys (o_arena o)) ->
  exists o'', decode icf (encode_with order o) = Ok o''.
Proof. exact reload_accepted. Qed.

(* ... in particular for every ontology produced by the public constructors *)
Theorem C07_constructed_output_is_accepted : forall icf o order, constructed icf o -> file_ok order o ->
  (forall l, Permutation (order l) l) ->
  In ROOT_ID (ar_keys (o_arena o)) -> In PHENOTYPE_ID (ar_keys (o_arena o)) ->
  exists o'', decode icf (encode_with order o) = Ok o''.
Proof. exact constructed_reload_accepted. Qed.

Print Assumptions C07_u32_roundtrip.
Print Assumptions C07_name_cut_bounds.
Print Assumptions C07_name_cut_identity.
Print Assumptions C07_name_limits_fit_one_byte.
Print Assumptions C07_header_accepted.
Print Assumptions C07_term_record_roundtrip.
Print Assumptions C07_gene_record_roundtrip.
Print Assumptions C07_disease_record_roundtrip.
Print Assumptions C07_cut_name_stays_valid.
Print Assumptions C07_short_name_not_cut.
Print Assumptions C07_term_section.
Print Assumptions C07_parent_section.
Print Assumptions C07_record_section.
Print Assumptions C07_decode_encode_is_rebuild.
Print Assumptions C07_reload_keeps_terms.
Print Assumptions C07_builder_ontologies_are_sources.
Print Assumptions C07_reload_keeps_annotations.
Print Assumptions C07_builder_ontologies_roundtrip.
Print Assumptions C07_builder_roundtrip_complete.
Print Assumptions C07_builder_defaults_fixed.
Print Assumptions C07_roundtrip_any_source.
Print Assumptions C07_jax_roundtrip_complete.
Print Assumptions C07_sub_ontology_roundtrip_complete.
Print Assumptions C07_every_constructed_ontology_roundtrips.
Print Assumptions C07_writer_output_is_accepted.
Print Assumptions C07_constructed_output_is_accepted.
