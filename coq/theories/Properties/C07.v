(* Properties/C07.v — binary round trip (C07, partial).
   Proved: the codec's integer layer (big-endian u32 round trip), the name cut (never beyond the
   documented limit, never longer than the name, identity on names that fit, and the limit fits
   the one-byte length field), and that the writer's header is one the reader accepts.
   The whole-ontology round trip `decode (encode o) = Ok o'` with `o'` observationally equal to `o`
   is decided by the correspondence run and spec_C07; it is not yet a theorem. *)
From HpoV Require Import Gen.Consts Model.Base Model.Onto Model.Binary Proofs.BinaryP.

Theorem C07_u32_roundtrip : forall n rest, n < 4294967296 -> u32_at (to_be32 n ++ rest) 0 = Ok n.
Proof. exact u32_at_to_be32. Qed.

Theorem C07_name_cut_bounds : forall limit s, cut_len limit s <= limit /\ cut_len limit s <= Nlen s.
Proof. exact cut_len_le. Qed.

Theorem C07_name_cut_identity : forall limit s, Nlen s <= limit -> cut_len limit s = Nlen s.
Proof. exact cut_len_fits. Qed.

Theorem C07_name_limits_fit_one_byte : TERM_NAME_LIMIT < 256 /\ GENE_NAME_LIMIT < 256.
Proof. exact name_limits_fit_one_byte. Qed.

Theorem C07_header_accepted : mem EMIT_VERSION ACCEPTED_VERSIONS = true /\ MAGIC_WRITER = MAGIC_READER.
Proof. exact writer_version_accepted. Qed.

Print Assumptions C07_u32_roundtrip.
Print Assumptions C07_name_cut_bounds.
Print Assumptions C07_name_cut_identity.
Print Assumptions C07_name_limits_fit_one_byte.
Print Assumptions C07_header_accepted.
