(* Properties/C14.v — sub-ontologies (C14).
   spec_C14 (evaluated by the check on the crate's observation of every generated call) states:
   root and leaves retained; every retained term on a shortest leaf-root chain; names and flags
   copied; exactly the induced parent links; leaf-root distances preserved; refusal iff a leaf is
   outside root's subtree; records kept iff directly annotated to a retained non-modifier term,
   restricted to the retained terms; and the result passes the executable statements of C01, C02
   and C03 again.  The theorems say what its reference functions mean. *)
From Coq Require Import Relations.
From HpoV Require Import Model.Base Run.World Run.C01 Run.C11 Run.C14 Proofs.C01P Proofs.C14P.

Theorem C14_retained_on_shortest_chain : forall ts n l t root dl,
  sd n ts l root = Some dl ->
  optN_eqb (opt_add (sd n ts l t) (sd n ts t root)) (Some dl) = true ->
  exists c1 c2,
    is_chain ts l c1 = true /\ last c1 l = t /\
    is_chain ts t c2 = true /\ last c2 t = root /\
    Nlen c1 + Nlen c2 = dl /\
    (forall c, is_chain ts l c = true -> last c l = root -> (length c <= n)%nat -> dl <= Nlen c).
Proof. exact on_shortest_chain. Qed.

(* the sub-ontology's own observation, having passed closure_ok, is again an exact closure *)
Theorem C14_result_closure_exact : forall sts, closure_ok sts = true -> forall t, In t sts ->
  forall a, In a (p_allp t) <-> clos_trans N (prel sts) (p_id t) a.
Proof. exact closure_ok_sound. Qed.

Print Assumptions C14_retained_on_shortest_chain.
Print Assumptions C14_result_closure_exact.
