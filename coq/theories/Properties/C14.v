(* Properties/C14.v — sub-ontologies (C14).
   spec_C14 (evaluated by the check on the crate's observation of every generated call) states:
   root and leaves retained; every retained term on a shortest leaf-root chain; names and flags
   copied; exactly the induced parent links; leaf-root distances preserved; refusal iff a leaf is
   outside root's subtree; records kept iff directly annotated to a retained non-modifier term,
   restricted to the retained terms; and the result passes the executable statements of C01, C02
   and C03 again.  The theorems say what its reference functions mean. *)
From Coq Require Import Relations.
From HpoV Require Import Gen.Consts Model.Base Model.Group Model.Onto Model.Query Model.SubOnt Run.World Run.C01 Run.C11 Run.C14 Proofs.C01P Proofs.C14P Proofs.ClosureP Proofs.DistP Proofs.SubP Proofs.QgoodP Proofs.SubLinksP Proofs.SubCopyP Proofs.AcyclicP Proofs.RecordsP Proofs.AnnotP Proofs.SubAnnotP Proofs.SubDistP Proofs.SubTotalP.

Theorem C14_retained_on_shortest_chain : forall ts n l t root dl,
  sd n ts l root = Some dl ->
  optN_eqb (opt_add (sd n ts l t) (sd n ts t root)) (Some dl) = true ->
  exists c1 c2,
    is_chain ts l c1 = true /\ last c1 l = t /\
    is_chain ts t c2 = true /\ last c2 t = root /\
    Nlen c1 + Nlen c2 = dl /\
    (forall c, is_chain ts l c = true -> last c l = root -> (length c <= n)%nat -> dl <= Nlen c).
Proof. exact on_shortest_chain. Qed.

(* the sub-ontology's own observation, having passed closure_ok, is again an exact closure *)
Theorem C14_result_closure_exact : forall sts, closure_ok sts = true -> forall t, In t sts ->
  forall a, In a (p_allp t) <-> clos_trans N (prel sts) (p_id t) a.
Proof. exact closure_ok_sound. Qed.

(* ---- about the Gallina transcription of Ontology::sub_ontology (Model/SubOnt.v) ---- *)

(* the retained ids are exactly: every leaf, and the path path_to_ancestor chose from it to the root *)
Theorem C14_model_retained_set : forall o root leaves acc ids, foldM (leaf_step o root) leaves acc = Ok ids ->
  forall x, In x ids <->
    In x acc \/ exists l lt path, In l leaves /\ ar_get_unchecked l (o_arena o) = Ok lt /\
                                  path_anc (q_fuel o) o lt root = Ok (Some path) /\ (x = t_id lt \/ In x path).
Proof. exact sub_ids_spec. Qed.

(* every retained term lies on a SHORTEST chain of parent links from some leaf to the root
   (ontologies with exact ancestor caches; leaves are terms of the ontology) *)
Theorem C14_model_retained_on_shortest_chain : forall o (G : qgood o) root leaves ids x,
  (forall l, In l leaves -> In l (ar_keys (o_arena o))) ->
  sub_ids o root leaves = Ok ids -> In x ids ->
  exists l path, In l leaves /\
    links o l path /\ last path l = t_id root /\ (x = l \/ In x path) /\
    forall n, chain (o_arena o) l n (t_id root) -> (length path <= n)%nat.
Proof. exact retained_on_shortest_chain. Qed.

(* the call is refused with NotImplemented exactly because some leaf has no path to the root *)
Theorem C14_model_refusal : forall o root leaves acc e, foldM (leaf_step o root) leaves acc = Err e ->
  e = NotImplemented /\ exists l lt, In l leaves /\ ar_get_unchecked l (o_arena o) = Ok lt /\
                                     path_anc (q_fuel o) o lt root = Ok None.
Proof. exact sub_ids_refuses. Qed.

(* THE STRUCTURE OF A SUB-ONTOLOGY: for every source ontology with exact caches (every Builder-built
   one: C11_builder_ontologies_are_qgood), every root and every list of leaves of it, a successful
   sub_ontology call returns an ontology that (1) again has unique ids, resolving links, sorted
   groups and EXACT ancestor caches, (2) has exactly the retained ids as its terms, and (3) has
   exactly the INDUCED links: c -> p is a link of the result iff both are retained and c -> p is a
   link of the source *)
Theorem C14_model_structure : forall icf o root leaves o', qgood o ->
  (forall l, In l leaves -> In l (ar_keys (o_arena o))) ->
  sub_ontology icf o root leaves = Ok o' ->
  exists ids, sub_ids o root leaves = Ok ids /\
    qgood o' /\
    (forall x, In x (ar_keys (o_arena o')) <-> In x ids) /\
    (forall c p, parent_rel (o_arena o') c p <-> In c ids /\ In p ids /\ parent_rel (o_arena o) c p).
Proof. exact sub_ontology_structure. Qed.

(* THE ANNOTATIONS OF A SUB-ONTOLOGY: with [pheno] the retained terms that are neither a modifier
   root nor below one, a record of the source is kept iff one of its direct terms is in [pheno]; a
   kept record keeps exactly its direct terms that are retained (last clause: the direct set of
   record g in the result); the result is acyclic and every one of its terms carries exactly the
   ids of the kept records with a retained direct term at the term itself or below it (ann_ok: the
   C02 statement holds again in the result) *)
Theorem C14_model_annotations : forall icf o root leaves o', qgood o ->
  (forall l, In l leaves -> In l (ar_keys (o_arena o))) -> sub_ontology icf o root leaves = Ok o' ->
  exists ids terms, sub_ids o root leaves = Ok ids /\
    Forall2 (fun id t => In t (ar_terms (o_arena o)) /\ t_id t = id) ids terms /\
    let pheno := g_from_list (map t_id (filter (fun t => g_is_empty (g_inter (g_bitor_id (t_allp t) (t_id t)) (o_mod o))) terms)) in
    acyclic (o_arena o') /\ ann_ok o' /\
    forall k g x, In x (direct k o' g) <->
      exists r, In r (o_records k o) /\ a_id r = g /\ kept pheno r /\ In x (a_hpos r) /\ In x ids.
Proof. exact sub_ontology_annotations. Qed.

(* EACH LEAF REACHES ROOT AT ITS ORIGINAL DISTANCE: the sub-ontology holds a chain of parent links from
   every leaf to the root whose length d is the length of a shortest such chain of the source, and
   none of its chains is shorter *)
Theorem C14_model_leaf_distance_kept : forall icf o root leaves o' l, qgood o ->
  (forall x, In x leaves -> In x (ar_keys (o_arena o))) -> sub_ontology icf o root leaves = Ok o' -> In l leaves ->
  exists d, chain (o_arena o') l d (t_id root) /\ chain (o_arena o) l d (t_id root) /\
            (forall n, chain (o_arena o) l n (t_id root) -> d <= n)%nat /\
            (forall n, chain (o_arena o') l n (t_id root) -> d <= n)%nat.
Proof. exact sub_ontology_leaf_distance. Qed.

(* the sub-ontology contains every leaf and (for a non-empty collection of leaves) the root *)
Theorem C14_model_contains_leaves_and_root : forall icf o root leaves o', qgood o ->
  (forall x, In x leaves -> In x (ar_keys (o_arena o))) -> sub_ontology icf o root leaves = Ok o' ->
  (forall l, In l leaves -> In l (ar_keys (o_arena o'))) /\ (leaves <> [] -> In (t_id root) (ar_keys (o_arena o'))).
Proof. exact sub_ontology_contains_leaves_and_root. Qed.

(* the order and the multiplicity of the leaves do not matter: two leaf collections with the same
   members give the same sub-ontology (duplicates, leaves listed twice, any order) *)
Theorem C14_model_leaf_collection_is_a_set : forall icf o root leaves leaves' o', (forall l, In l leaves <-> In l leaves') ->
  sub_ontology icf o root leaves = Ok o' -> sub_ontology icf o root leaves' = Ok o'.
Proof. exact sub_ontology_same_members. Qed.

(* ... and it is refused ONLY then: when every leaf is the root or one of its descendants (acyclic
   ontology with exact caches) the retained set is computed *)
Theorem C14_model_acceptance : forall o root leaves, qgood o -> acyclic (o_arena o) ->
  (forall l, In l leaves -> In l (ar_keys (o_arena o))) ->
  (forall l, In l leaves -> l = t_id root \/ anc (o_arena o) l (t_id root)) ->
  exists ids, sub_ids o root leaves = Ok ids.
Proof. exact sub_ids_accepts. Qed.

(* THE WHOLE CALL RETURNS: for an acyclic source with exact caches, leaves that are terms of the source and
   are the root or below it, and an information-content function defined on all counts up to the
   source's record counts (the real one is: they are at most u16::MAX whenever the source was built),
   sub_ontology returns an ontology — every stage has enough fuel and no lookup fails *)
Theorem C14_model_sub_ontology_returns : forall icf o root leaves, qgood o -> acyclic (o_arena o) ->
  (forall l, In l leaves -> In l (ar_keys (o_arena o))) ->
  (forall l, In l leaves -> l = t_id root \/ anc (o_arena o) l (t_id root)) ->
  (forall k N n, N <= Nlen (o_records k o) -> n <= N -> exists v, icf N n = Ok v) ->
  exists o', sub_ontology icf o root leaves = Ok o'.
Proof. exact sub_ontology_total. Qed.

(* NAMES AND FLAGS ARE COPIED: every term of the result carries the name, the obsolete flag and the
   replacement of the source term with the same id *)
Theorem C14_model_names_and_flags_copied : forall icf o root leaves o', qgood o ->
  (forall l, In l leaves -> In l (ar_keys (o_arena o))) ->
  sub_ontology icf o root leaves = Ok o' ->
  forall t', In t' (ar_terms (o_arena o')) ->
  exists t, In t (ar_terms (o_arena o)) /\ t_id t' = t_id t /\ t_name t' = t_name t /\
            t_obsolete t' = t_obsolete t /\ t_repl t' = t_repl t.
Proof. exact sub_ontology_copies. Qed.

Print Assumptions C14_retained_on_shortest_chain.
Print Assumptions C14_result_closure_exact.
Print Assumptions C14_model_retained_set.
Print Assumptions C14_model_retained_on_shortest_chain.
Print Assumptions C14_model_refusal.
Print Assumptions C14_model_structure.
Print Assumptions C14_model_annotations.
Print Assumptions C14_model_leaf_distance_kept.
Print Assumptions C14_model_contains_leaves_and_root.
Print Assumptions C14_model_leaf_collection_is_a_set.
Print Assumptions C14_model_acceptance.
Print Assumptions C14_model_sub_ontology_returns.
Print Assumptions C14_model_names_and_flags_copied.
