(* Properties/C10.v — lookups are exact for every id (C10).  Theorems about the two-table arena
   (Model/Onto.v, transcription of src/ontology/termarena.rs) for EVERY insertion sequence and
   EVERY id; MAX_HPO_ID is regenerated from the source on every run. *)
From HpoV Require Import Gen.Consts Model.Base Model.Onto Model.Script Model.ManyTerms Proofs.C10P Proofs.ManyTermsP.

Theorem C10_lookup_after_any_insertions : forall ts a id, insert_all ts arena_default = Ok a ->
  ar_get id a = if MAX_HPO_ID <=? id then None else find_by t_id id ts.
Proof. exact get_after_inserts. Qed.

Theorem C10_lookup_returns_that_id : forall a id t, ar_get id a = Some t -> t_id t = id.
Proof. exact get_returns_that_id. Qed.

Theorem C10_lookup_outside_id_space : forall a id, MAX_HPO_ID <= id -> ar_get id a = None.
Proof. exact get_out_of_range. Qed.

Theorem C10_iteration_exact : forall ts a, insert_all ts arena_default = Ok a ->
  NoDup (ar_keys a) /\ (forall id, In id (ar_keys a) <-> In id (map t_id ts)) /\
  ar_len a = Nlen (ar_keys a).
Proof. exact iteration_exact. Qed.

Theorem C10_insert_outside_id_space_panics : forall t a, MAX_HPO_ID <= t_id t -> ar_insert t a = Panic.
Proof. exact insert_out_of_range. Qed.

(* the documented id space *)
Theorem C10_id_space : MAX_HPO_ID = 10000000.
Proof. exact eq_refl. Qed.

(* the correspondence run builds an ontology of more than 65 536 terms through block forms
   (Model/ManyTerms.v); they ARE the call-by-call Builder transcription, for every first id, stride
   and count: the block of new_term calls, connect_all_terms on an arena without parent links, and
   the whole script *)
Theorem C10_many_terms_block_is_calls : forall first stride count o,
  many_terms first stride count o = many_slow first stride count o.
Proof. exact many_terms_is_calls. Qed.

Theorem C10_connect_without_links : forall o, connect_unlinked o = b_connect_all_terms o.
Proof. exact connect_unlinked_is_connect. Qed.

Theorem C10_many_terms_script : forall icf ver first stride count,
  run_many icf ver first stride count = run_script icf (many_script ver first stride count).
Proof. exact run_many_is_script. Qed.

Print Assumptions C10_lookup_after_any_insertions.
Print Assumptions C10_lookup_returns_that_id.
Print Assumptions C10_lookup_outside_id_space.
Print Assumptions C10_iteration_exact.
Print Assumptions C10_insert_outside_id_space_panics.
Print Assumptions C10_id_space.
Print Assumptions C10_many_terms_block_is_calls.
Print Assumptions C10_connect_without_links.
Print Assumptions C10_many_terms_script.
