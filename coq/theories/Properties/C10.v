(* Properties/C10.v — lookups are exact for every id (C10).  Theorems about the two-table arena
   (Model/Onto.v, transcription of src/ontology/termarena.rs) for EVERY insertion sequence and
   EVERY id; MAX_HPO_ID is regenerated from the source on every run. *)
From HpoV Require Import Gen.Consts Model.Base Model.Onto Model.Script Model.ManyTerms Proofs.C10P Proofs.ManyTermsP Run.C10 Proofs.C10N Model.Group Run.World Proofs.GroupP Proofs.C10S.

Theorem C10_lookup_after_any_insertions : forall ts a id, insert_all ts arena_default = Ok a ->
  ar_get id a = if MAX_HPO_ID <=? id then None else find_by t_id id ts.
Proof. exact get_after_inserts. Qed.

Theorem C10_lookup_returns_that_id : forall a id t, ar_get id a = Some t -> t_id t = id.
Proof. exact get_returns_that_id. Qed.

Theorem C10_lookup_outside_id_space : forall a id, MAX_HPO_ID <= id -> ar_get id a = None.
Proof. exact get_out_of_range. Qed.

Theorem C10_iteration_exact : forall ts a, insert_all ts arena_default = Ok a ->
  NoDup (ar_keys a) /\ (forall id, In id (ar_keys a) <-> In id (map t_id ts)) /\
  ar_len a = Nlen (ar_keys a).
Proof. exact iteration_exact. Qed.

Theorem C10_insert_outside_id_space_panics : forall t a, MAX_HPO_ID <= t_id t -> ar_insert t a = Panic.
Proof. exact insert_out_of_range. Qed.

(* the documented id space *)
Theorem C10_id_space : MAX_HPO_ID = 10000000.
Proof. exact eq_refl. Qed.

(* the correspondence run builds an ontology of more than 65 536 terms through block forms
   (Model/ManyTerms.v); they ARE the call-by-call Builder transcription, for every first id, stride
   and count: the block of new_term calls, connect_all_terms on an arena without parent links, and
   the whole script *)
Theorem C10_many_terms_block_is_calls : forall first stride count o,
  many_terms first stride count o = many_slow first stride count o.
Proof. exact many_terms_is_calls. Qed.

Theorem C10_connect_without_links : forall o, connect_unlinked o = b_connect_all_terms o.
Proof. exact connect_unlinked_is_connect. Qed.

Theorem C10_many_terms_script : forall icf ver first stride count,
  run_many icf ver first stride count = run_script icf (many_script ver first stride count).
Proof. exact run_many_is_script. Qed.

(* ---- records: lookup by id, by gene symbol, disease name search (Run/C10.v models of ontology.rs:540-600) ---- *)

(* the byte-level infix test is "the name contains the query" *)
Theorem C10_contains_is_infix : forall q s, is_infix q s = true <-> exists a b, s = a ++ q ++ b.
Proof. exact is_infix_spec. Qed.

(* omim_diseases_by_name returns exactly the diseases whose name contains the query *)
Theorem C10_disease_name_search_exact : forall o q r,
  In r (omim_by_name o q) <-> In r (o_omim o) /\ exists a b, a_name r = a ++ q ++ b.
Proof. exact omim_by_name_spec. Qed.

Theorem C10_first_disease_by_name : forall o q,
  match omim_first_by_name o q with
  | Some r => In r (o_omim o) /\ exists a b, a_name r = a ++ q ++ b
  | None => forall r, In r (o_omim o) -> ~ exists a b, a_name r = a ++ q ++ b
  end.
Proof. exact omim_first_by_name_spec. Qed.

(* gene_by_name returns a gene with exactly that symbol; None only if no gene has it *)
Theorem C10_gene_by_symbol : forall o q,
  match gene_by_name o q with
  | Some r => In r (o_genes o) /\ a_name r = q
  | None => forall r, In r (o_genes o) -> a_name r <> q
  end.
Proof. exact gene_by_name_spec. Qed.

(* gene / disease lookup by id returns the record with that id; None only if there is none *)
Theorem C10_record_by_id : forall id recs,
  match an_find id recs with
  | Some r => In r recs /\ a_id r = id
  | None => forall r, In r recs -> a_id r <> id
  end.
Proof. exact record_by_id_spec. Qed.

(* SOUNDNESS OF THE EXECUTABLE STATEMENT (term lookups): what an observation accepted by spec_C10 says *)
Theorem C10_accepted_observation_means : forall w tbl probes queries found iter_ids len qs,
  spec_C10 ((w, tbl), probes, queries) (Ok (found, iter_ids, len, qs)) = true ->
  (forall asked got name, In (asked, got, name) found -> got = asked /\ asked < MAX_HPO_ID) /\
  sorted (map (fun f : N * N * list N => fst (fst f)) found) /\
  iter_ids = map (fun f : N * N * list N => fst (fst f)) found /\
  len = Nlen iter_ids /\
  match w with
  | WBuilder s =>
      (forall id, In id iter_ids <-> id < MAX_HPO_ID /\ In id (map fst (script_terms s))) /\
      (forall asked got name, In (asked, got, name) found -> first_name s asked = Some name)
  | _ => True
  end.
Proof. exact spec_C10_sound. Qed.

Print Assumptions C10_lookup_after_any_insertions.
Print Assumptions C10_lookup_returns_that_id.
Print Assumptions C10_lookup_outside_id_space.
Print Assumptions C10_iteration_exact.
Print Assumptions C10_insert_outside_id_space_panics.
Print Assumptions C10_id_space.
Print Assumptions C10_many_terms_block_is_calls.
Print Assumptions C10_connect_without_links.
Print Assumptions C10_many_terms_script.
Print Assumptions C10_contains_is_infix.
Print Assumptions C10_disease_name_search_exact.
Print Assumptions C10_first_disease_by_name.
Print Assumptions C10_gene_by_symbol.
Print Assumptions C10_record_by_id.
Print Assumptions C10_accepted_observation_means.
