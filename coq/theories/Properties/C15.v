(* Properties/C15.v — rejected builder calls have no effect; no dangling ids (C15) *)
From HpoV Require Import Model.Base Model.Dump Run.World Run.Ser Run.C15 Proofs.C15P.

Theorem C15_referentially_closed : forall d, ref_closed d = true ->
  (forall t, In t (do_terms d) ->
     (forall x, In x (d_parents t) \/ In x (d_children t) \/ In x (d_allp t) -> exists tx, d_find x d = Some tx)
     /\ (forall g, In g (d_genes t) -> In g (map da_id (do_genes d)))
     /\ (forall g, In g (d_omim t) -> In g (map da_id (do_omim d)))
     /\ (forall g, In g (d_orpha t) -> In g (map da_id (do_orpha d))))
  /\ (forall r, In r (do_genes d) \/ In r (do_omim d) \/ In r (do_orpha d) ->
        forall x, In x (da_hpos r) -> exists tx, d_find x d = Some tx).
Proof. exact ref_closed_sound. Qed.

Theorem C15_same_observation : forall a b, res_donto_eqb a b = true -> ser_res a = ser_res b.
Proof. exact res_donto_eqb_sound. Qed.

Print Assumptions C15_referentially_closed.
Print Assumptions C15_same_observation.
