(* Properties/C15.v — rejected builder calls have no effect; no dangling ids (C15) *)
From HpoV Require Import Gen.Consts Model.Base Model.Group Model.Onto Model.Dump Model.Script Run.World Run.Ser Run.C15 Proofs.C15P Proofs.ScriptP Proofs.ClosureP Model.Dump Proofs.WalkP Proofs.WalkAllP Proofs.AllPathsP Proofs.AcyclicP Proofs.GroupP Proofs.RecordsP Proofs.TotalReloadP Proofs.BuilderTotalP Proofs.DistP Proofs.RoundTripP Proofs.AnnotP Proofs.JaxP Proofs.DecodeAnyP Model.Binary Model.Text Model.SubOnt Proofs.DecodeClosedP.

Theorem C15_referentially_closed : forall d, ref_closed d = true ->
  (forall t, In t (do_terms d) ->
     (forall x, In x (d_parents t) \/ In x (d_children t) \/ In x (d_allp t) -> exists tx, d_find x d = Some tx)
     /\ (forall g, In g (d_genes t) -> In g (map da_id (do_genes d)))
     /\ (forall g, In g (d_omim t) -> In g (map da_id (do_omim d)))
     /\ (forall g, In g (d_orpha t) -> In g (map da_id (do_orpha d))))
  /\ (forall r, In r (do_genes d) \/ In r (do_omim d) \/ In r (do_orpha d) ->
        forall x, In x (da_hpos r) -> exists tx, d_find x d = Some tx).
Proof. exact ref_closed_sound. Qed.

Theorem C15_same_observation : forall a b, res_donto_eqb a b = true -> ser_res a = ser_res b.
Proof. exact res_donto_eqb_sound. Qed.

(* ---- about the Gallina transcription of the Builder (Model/Onto.v, Model/Script.v) ---- *)

(* a history of add_parent calls, some of which fail: the builder ends in exactly the state that
   the successful calls alone produce, and those all succeed again (for EVERY history) *)
Theorem C15_model_failed_add_parent_no_trace : forall (ops : list (N * N)) o0 o' codes,
  run_ops (fun o (pc : N * N) => step_keep (b_add_parent (fst pc) (snd pc) o) o) ops o0 = Ok (o', codes) ->
  length codes = length ops /\
  exists zs, run_ops (fun o (pc : N * N) => step_keep (b_add_parent (fst pc) (snd pc) o) o)
                     (fst (keep_ok ops codes)) o0 = Ok (o', zs) /\ Forall (fun c => c = 0) zs.
Proof. exact failed_add_parent_calls_leave_no_trace. Qed.

(* the same for histories of add_gene / add_*_disease / annotate_* calls *)
Theorem C15_model_failed_annotate_no_trace : forall (ops : list annot_op) o0 o' codes,
  run_ops run_annot_op ops o0 = Ok (o', codes) ->
  length codes = length ops /\
  exists zs, run_ops run_annot_op (fst (keep_ok ops codes)) o0 = Ok (o', zs) /\ Forall (fun c => c = 0) zs.
Proof. exact failed_annotate_calls_leave_no_trace. Qed.

(* no dangling link: after any successful add_parent every parent id resolves, ids stay unique and
   children stay the exact inverse of parents (the failing variant returns Err before touching
   either term) *)
Theorem C15_model_add_parent_keeps_links_resolving : forall o parent child o', binv (o_arena o) ->
  b_add_parent parent child o = Ok o' -> binv (o_arena o').
Proof. exact add_parent_keeps_binv. Qed.

(* NO DANGLING IDS, FOR EVERY BUILDER SCRIPT: whatever calls are made and whichever of them fail, the
   complete walk through the read API of the finished ontology — every parents() / children() /
   all_parents() / genes() / omim_diseases() / orpha_diseases() iterator of every term and
   to_hpo_set of every record, each of which panics on an id that does not resolve — returns *)
Theorem C15_builder_ontologies_walk_returns : forall icf s codes o, run_script icf s = Ok (codes, Ok o) ->
  exists d, dump_onto o = Ok d.
Proof. exact builder_walk_returns. Qed.

(* NO DANGLING IDS ON THE OTHER CONSTRUCTION PATHS: the same walk returns on every ontology with exact
   caches, children = parents^-1, inherited annotation sets and records naming stored terms ... *)
Theorem C15_wellformed_ontologies_walk_returns : forall o, src_ok o -> ann_ok o ->
  (forall k r d, In r (o_records k o) -> In d (a_hpos r) -> In d (ar_keys (o_arena o))) ->
  exists d, dump_onto o = Ok d.
Proof. exact wellformed_walk_returns. Qed.

(* ... hence on every JAX load (closed hp.obo), every sub-ontology of an ontology with exact caches,
   every accepted well-formed binary file whose records name stored terms *)
Theorem C15_jax_ontologies_walk_returns : forall icf tr obo genes hpoa o, obo_closed obo ->
  load_jax icf tr obo genes hpoa = Ok o -> exists d, dump_onto o = Ok d.
Proof. exact jax_walk_returns. Qed.

Theorem C15_sub_ontologies_walk_returns : forall icf o root leaves o', qgood o ->
  (forall l, In l leaves -> In l (ar_keys (o_arena o))) -> sub_ontology icf o root leaves = Ok o' ->
  exists d, dump_onto o' = Ok d.
Proof. exact sub_walk_returns. Qed.

Theorem C15_binary_ontologies_walk_returns : forall icf input o, decode icf input = Ok o -> bin_closed input -> bin_distinct input ->
  (forall k r d, In r (o_records k o) -> In d (a_hpos r) -> In d (ar_keys (o_arena o))) ->
  exists d, dump_onto o = Ok d.
Proof. exact decoded_walk_returns. Qed.

(* ... in one statement: on every [constructed] ontology (Proofs/AllPathsP.v) *)
Theorem C15_every_constructed_ontology_walk_returns : forall icf o, constructed icf o -> exists d, dump_onto o = Ok d.
Proof. exact constructed_walk_returns. Qed.

(* annotate_gene / annotate_omim_disease / annotate_orpha_disease are rejected ONLY for an absent term: on
   a stored term of an acyclic ontology with exact caches the call returns Ok (the propagation has
   enough fuel, the record is found); on an absent term it returns Err(DoesNotExist) and nothing else *)
Theorem C15_annotate_on_stored_term_succeeds : forall k id name tid o, qgood o -> acyclic (o_arena o) ->
  (forall t, In t (ar_terms (o_arena o)) -> sorted (t_annots k t)) -> In tid (ar_keys (o_arena o)) ->
  exists o', b_annotate k id name tid o = Ok o'.
Proof. exact annotate_total. Qed.

Theorem C15_annotate_on_absent_term_is_rejected : forall k id name tid o, o_get tid o = None ->
  b_annotate k id name tid o = Err DoesNotExist.
Proof. exact annotate_absent_term. Qed.

(* THE BUILDER API IS TOTAL ON ACYCLIC INPUT: a script whose term ids are inside the id space and whose
   successful add_parent calls describe an acyclic graph always runs to the end — every rejected call
   is an Err the client can ignore, connect_all_terms has enough fuel, every annotate_* propagation
   returns — whatever the order of the calls (icf: an information-content function that never panics) *)
Theorem C15_builder_scripts_run_to_the_end : forall icf s,
  (let '(_, terms, _, _, _) := s in forall t : N * list N, In t terms -> fst t < MAX_HPO_ID) ->
  (let '(ver, terms, parents, _, _) := s in
   forall o1 r2, foldM (fun o (t : N * list N) => b_new_term (snd t) (fst t) o) terms (set_version ver onto_new) = Ok o1 ->
     run_ops (fun o (pc : N * N) => step_keep (b_add_parent (fst pc) (snd pc) o) o) parents o1 = Ok r2 -> acyclic (o_arena (fst r2))) ->
  (forall N n, icf N n <> Panic /\ icf N n <> Fuel) ->
  exists codes r, run_script icf s = Ok (codes, r).
Proof. exact run_script_total. Qed.

(* BINARY FILES, EVERY BYTE STRING: an ontology that from_bytes returns - for any input at all, well-formed or
   not - has no dangling id on the record side: every term a gene / disease record lists is a term of the ontology
   (a record that names an absent term makes the load fail) *)
Theorem C15_decoded_records_name_stored_terms : forall icf input o, decode icf input = Ok o ->
  forall k r d, In r (o_records k o) -> In d (a_hpos r) -> In d (ar_keys (o_arena o)).
Proof. exact decode_records_closed. Qed.

(* ... and on the term side: every gene / disease id a term of such an ontology carries has a record - again for
   EVERY byte string (ids may repeat, the parent section may name anything) *)
Theorem C15_decoded_terms_carry_recorded_ids : forall icf input o, decode icf input = Ok o ->
  forall k t g, In t (ar_terms (o_arena o)) -> In g (t_annots k t) -> In g (map a_id (o_records k o)).
Proof. exact decode_terms_closed. Qed.

Print Assumptions C15_referentially_closed.
Print Assumptions C15_same_observation.
Print Assumptions C15_model_failed_add_parent_no_trace.
Print Assumptions C15_model_failed_annotate_no_trace.
Print Assumptions C15_model_add_parent_keeps_links_resolving.
Print Assumptions C15_builder_ontologies_walk_returns.
Print Assumptions C15_wellformed_ontologies_walk_returns.
Print Assumptions C15_jax_ontologies_walk_returns.
Print Assumptions C15_sub_ontologies_walk_returns.
Print Assumptions C15_binary_ontologies_walk_returns.
Print Assumptions C15_every_constructed_ontology_walk_returns.
Print Assumptions C15_annotate_on_stored_term_succeeds.
Print Assumptions C15_annotate_on_absent_term_is_rejected.
Print Assumptions C15_builder_scripts_run_to_the_end.
Print Assumptions C15_decoded_records_name_stored_terms.
Print Assumptions C15_decoded_terms_carry_recorded_ids.
