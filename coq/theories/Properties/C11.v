(* Properties/C11.v — distances and paths are valid walks of minimal length (C11).
   spec_C11 compares every reported distance with [sd] over the reported parent links and checks
   every reported path link by link; these theorems say what [sd] is. *)
From HpoV Require Import Gen.Consts Model.Base Model.Group Model.Onto Model.Query Run.World Run.C01 Run.C11 Proofs.C11P Proofs.ClosureP Proofs.DistP.

Theorem C11_distance_is_a_chain_length : forall ts b fuel a d, sd fuel ts a b = Some d ->
  exists l, is_chain ts a l = true /\ last l a = b /\ Nlen l = d.
Proof. exact sd_sound. Qed.

Theorem C11_distance_is_minimal : forall ts b l fuel a, is_chain ts a l = true -> last l a = b ->
  (length l <= fuel)%nat -> exists d, sd fuel ts a b = Some d /\ d <= Nlen l.
Proof. exact sd_minimal. Qed.

Theorem C11_chain_is_walk : forall ts l a, is_chain ts a l = true -> is_walk ts a l = true.
Proof. exact is_walk_of_chain. Qed.

(* ---- about the Gallina transcription of HpoTerm::distance_to_ancestor (Model/Query.v), for
   EVERY ontology whose ancestor caches are exact (C01), every fuel ---- *)

(* the returned distance is the length of an actual chain of parent links ... *)
Theorem C11_model_distance_is_a_chain : forall o, qgood o -> forall fuel ta tb d, In ta (ar_terms (o_arena o)) ->
  dist_anc fuel o ta tb = Ok (Some d) -> chain (o_arena o) (t_id ta) (N.to_nat d) (t_id tb).
Proof. exact dist_anc_sound. Qed.

(* ... no chain is shorter, and the cache-based pruning never cuts a reachable target ... *)
Theorem C11_model_distance_is_minimal : forall o, qgood o -> forall fuel ta tb r, In ta (ar_terms (o_arena o)) ->
  dist_anc fuel o ta tb = Ok r ->
  forall n, chain (o_arena o) (t_id ta) n (t_id tb) -> exists d, r = Some d /\ (N.to_nat d <= n)%nat.
Proof. exact dist_anc_minimal. Qed.

(* ... and None exactly when the target is neither the term nor one of its ancestors *)
Theorem C11_model_distance_none : forall o, qgood o -> forall fuel ta tb, In ta (ar_terms (o_arena o)) ->
  dist_anc fuel o ta tb = Ok None -> t_id ta <> t_id tb /\ ~ anc (o_arena o) (t_id ta) (t_id tb).
Proof. exact dist_anc_none. Qed.

(* path_to_ancestor: the returned list is a chain of parent links from the term that ends in the
   target ... *)
Theorem C11_model_path_is_a_chain : forall o (G : qgood o) fuel ta tb l, In ta (ar_terms (o_arena o)) ->
  path_anc fuel o ta tb = Ok (Some l) -> links o (t_id ta) l /\ last l (t_id ta) = t_id tb.
Proof. exact path_anc_sound. Qed.

(* ... of minimal length, and a path is returned for every reachable target *)
Theorem C11_model_path_is_shortest : forall o (G : qgood o) fuel ta tb r, In ta (ar_terms (o_arena o)) ->
  path_anc fuel o ta tb = Ok r ->
  forall n, chain (o_arena o) (t_id ta) n (t_id tb) -> exists l, r = Some l /\ (length l <= n)%nat.
Proof. exact path_anc_minimal. Qed.

Print Assumptions C11_distance_is_a_chain_length.
Print Assumptions C11_distance_is_minimal.
Print Assumptions C11_chain_is_walk.
Print Assumptions C11_model_distance_is_a_chain.
Print Assumptions C11_model_distance_is_minimal.
Print Assumptions C11_model_distance_none.
Print Assumptions C11_model_path_is_a_chain.
Print Assumptions C11_model_path_is_shortest.
