(* Properties/C11.v — distances and paths are valid walks of minimal length (C11).
   spec_C11 compares every reported distance with [sd] over the reported parent links and checks
   every reported path link by link; these theorems say what [sd] is. *)
From HpoV Require Import Gen.Consts Model.Base Model.Group Model.Onto Model.Query Run.World Run.C01 Run.C11 Proofs.C11P Proofs.ClosureP Proofs.DistP Proofs.DistTermP Proofs.PathTermP Proofs.QgoodP Model.Script Proofs.AllPathsP Proofs.AcyclicP Proofs.TotalDistP.

Theorem C11_distance_is_a_chain_length : forall ts b fuel a d, sd fuel ts a b = Some d ->
  exists l, is_chain ts a l = true /\ last l a = b /\ Nlen l = d.
Proof. exact sd_sound. Qed.

Theorem C11_distance_is_minimal : forall ts b l fuel a, is_chain ts a l = true -> last l a = b ->
  (length l <= fuel)%nat -> exists d, sd fuel ts a b = Some d /\ d <= Nlen l.
Proof. exact sd_minimal. Qed.

Theorem C11_chain_is_walk : forall ts l a, is_chain ts a l = true -> is_walk ts a l = true.
Proof. exact is_walk_of_chain. Qed.

(* ---- about the Gallina transcription of HpoTerm::distance_to_ancestor (Model/Query.v), for
   EVERY ontology whose ancestor caches are exact (C01), every fuel ---- *)

(* the returned distance is the length of an actual chain of parent links ... *)
Theorem C11_model_distance_is_a_chain : forall o, qgood o -> forall fuel ta tb d, In ta (ar_terms (o_arena o)) ->
  dist_anc fuel o ta tb = Ok (Some d) -> chain (o_arena o) (t_id ta) (N.to_nat d) (t_id tb).
Proof. exact dist_anc_sound. Qed.

(* ... no chain is shorter, and the cache-based pruning never cuts a reachable target ... *)
Theorem C11_model_distance_is_minimal : forall o, qgood o -> forall fuel ta tb r, In ta (ar_terms (o_arena o)) ->
  dist_anc fuel o ta tb = Ok r ->
  forall n, chain (o_arena o) (t_id ta) n (t_id tb) -> exists d, r = Some d /\ (N.to_nat d <= n)%nat.
Proof. exact dist_anc_minimal. Qed.

(* ... and None exactly when the target is neither the term nor one of its ancestors *)
Theorem C11_model_distance_none : forall o, qgood o -> forall fuel ta tb, In ta (ar_terms (o_arena o)) ->
  dist_anc fuel o ta tb = Ok None -> t_id ta <> t_id tb /\ ~ anc (o_arena o) (t_id ta) (t_id tb).
Proof. exact dist_anc_none. Qed.

(* path_to_ancestor: the returned list is a chain of parent links from the term that ends in the
   target ... *)
Theorem C11_model_path_is_a_chain : forall o (G : qgood o) fuel ta tb l, In ta (ar_terms (o_arena o)) ->
  path_anc fuel o ta tb = Ok (Some l) -> links o (t_id ta) l /\ last l (t_id ta) = t_id tb.
Proof. exact path_anc_sound. Qed.

(* ... of minimal length, and a path is returned for every reachable target *)
Theorem C11_model_path_is_shortest : forall o (G : qgood o) fuel ta tb r, In ta (ar_terms (o_arena o)) ->
  path_anc fuel o ta tb = Ok r ->
  forall n, chain (o_arena o) (t_id ta) n (t_id tb) -> exists l, r = Some l /\ (length l <= n)%nat.
Proof. exact path_anc_minimal. Qed.

(* the hypothesis [qgood] of all theorems of this file (unique ids in range, links resolve, sorted
   groups, every ancestor cache exactly the transitive closure) holds of EVERY ontology a Builder
   script produces, whatever calls fail on the way: the theorems are about reachable states *)
Theorem C11_builder_ontologies_are_qgood : forall icf s codes o, run_script icf s = Ok (codes, Ok o) -> qgood o.
Proof. exact run_script_qgood. Qed.

(* ---- distance_to_term / path_to_term (transcription level) ---- *)

(* the distance between two terms is realised by two upward chains that meet ... *)
Theorem C11_model_term_distance_is_realised : forall o, qgood o -> forall ta tb d,
  In ta (ar_terms (o_arena o)) -> In tb (ar_terms (o_arena o)) -> dist_term o ta tb = Ok (Some d) ->
  exists c n1 n2, chain (o_arena o) (t_id ta) n1 c /\ chain (o_arena o) (t_id tb) n2 c /\ N.to_nat d = (n1 + n2)%nat.
Proof. exact dist_term_sound. Qed.

(* ... and it is the minimum over ALL meeting points (a value is returned as soon as there is one) *)
Theorem C11_model_term_distance_is_minimal : forall o, qgood o -> forall ta tb r,
  In ta (ar_terms (o_arena o)) -> In tb (ar_terms (o_arena o)) -> dist_term o ta tb = Ok r ->
  forall c n1 n2, chain (o_arena o) (t_id ta) n1 c -> chain (o_arena o) (t_id tb) n2 c ->
  exists d, r = Some d /\ (N.to_nat d <= n1 + n2)%nat.
Proof. exact dist_term_minimal. Qed.

Theorem C11_model_term_distance_none : forall o, qgood o -> forall ta tb,
  In ta (ar_terms (o_arena o)) -> In tb (ar_terms (o_arena o)) -> dist_term o ta tb = Ok None ->
  forall c n1 n2, chain (o_arena o) (t_id ta) n1 c -> ~ chain (o_arena o) (t_id tb) n2 c.
Proof. exact dist_term_none. Qed.

Theorem C11_model_term_distance_self : forall o, qgood o -> forall ta r,
  In ta (ar_terms (o_arena o)) -> dist_term o ta ta = Ok r -> r = Some 0.
Proof. exact dist_term_self. Qed.

Theorem C11_model_term_distance_symmetric : forall o, qgood o -> forall ta tb r,
  In ta (ar_terms (o_arena o)) -> In tb (ar_terms (o_arena o)) ->
  dist_term o ta tb = Ok r -> dist_term o tb ta = Ok r.
Proof. exact dist_term_symmetric. Qed.

(* the path between two distinct terms is a walk along is_a links (up to a common ancestor, then
   down) that ends in the target ... *)
Theorem C11_model_term_path_is_a_walk : forall o (G : qgood o) ta tb l,
  In ta (ar_terms (o_arena o)) -> In tb (ar_terms (o_arena o)) -> t_id ta <> t_id tb ->
  path_term o ta tb = Ok (Some l) -> walk o (t_id ta) l /\ last l (t_id ta) = t_id tb.
Proof. exact path_term_sound. Qed.

(* ... and no two upward chains that meet are shorter *)
Theorem C11_model_term_path_is_shortest : forall o (G : qgood o) ta tb l,
  In ta (ar_terms (o_arena o)) -> In tb (ar_terms (o_arena o)) -> t_id ta <> t_id tb ->
  path_term o ta tb = Ok (Some l) ->
  forall c n1 n2, chain (o_arena o) (t_id ta) n1 c -> chain (o_arena o) (t_id tb) n2 c -> (length l <= n1 + n2)%nat.
Proof. exact path_term_minimal. Qed.

(* ... and of every [constructed] ontology (Proofs/AllPathsP.v: every public construction path) *)
Theorem C11_constructed_ontologies_are_qgood : forall icf o, constructed icf o -> qgood o.
Proof. exact constructed_qgood. Qed.

(* ---- TOTALITY: in an acyclic ontology with exact caches the four queries RETURN for all terms of the
   ontology (enough fuel, no failing lookup, none of path_to_term's expect() panics); the
   "whenever the query returns" theorems above therefore always apply ---- *)
Theorem C11_distance_to_ancestor_returns : forall o, qgood o -> acyclic (o_arena o) -> forall ta tb,
  In ta (ar_terms (o_arena o)) -> exists r, dist_anc (q_fuel o) o ta tb = Ok r.
Proof. exact distance_to_ancestor_returns. Qed.

Theorem C11_path_to_ancestor_returns : forall o, qgood o -> acyclic (o_arena o) -> forall ta tb,
  In ta (ar_terms (o_arena o)) -> exists r, path_anc (q_fuel o) o ta tb = Ok r.
Proof. exact path_to_ancestor_returns. Qed.

Theorem C11_distance_to_term_returns : forall o, qgood o -> acyclic (o_arena o) -> forall ta tb,
  In ta (ar_terms (o_arena o)) -> In tb (ar_terms (o_arena o)) -> exists r, dist_term o ta tb = Ok r.
Proof. exact distance_to_term_returns. Qed.

Theorem C11_path_to_term_returns : forall o, qgood o -> acyclic (o_arena o) -> forall ta tb,
  In ta (ar_terms (o_arena o)) -> In tb (ar_terms (o_arena o)) -> exists r, path_term o ta tb = Ok r.
Proof. exact path_to_term_returns. Qed.

Print Assumptions C11_distance_is_a_chain_length.
Print Assumptions C11_distance_is_minimal.
Print Assumptions C11_chain_is_walk.
Print Assumptions C11_model_distance_is_a_chain.
Print Assumptions C11_model_distance_is_minimal.
Print Assumptions C11_model_distance_none.
Print Assumptions C11_model_path_is_a_chain.
Print Assumptions C11_model_path_is_shortest.
Print Assumptions C11_model_term_distance_is_realised.
Print Assumptions C11_model_term_distance_is_minimal.
Print Assumptions C11_model_term_distance_none.
Print Assumptions C11_model_term_distance_self.
Print Assumptions C11_model_term_distance_symmetric.
Print Assumptions C11_model_term_path_is_a_walk.
Print Assumptions C11_model_term_path_is_shortest.
Print Assumptions C11_builder_ontologies_are_qgood.
Print Assumptions C11_constructed_ontologies_are_qgood.
Print Assumptions C11_distance_to_ancestor_returns.
Print Assumptions C11_path_to_ancestor_returns.
Print Assumptions C11_distance_to_term_returns.
Print Assumptions C11_path_to_term_returns.
