(* Properties/C11.v — distances and paths are valid walks of minimal length (C11).
   spec_C11 compares every reported distance with [sd] over the reported parent links and checks
   every reported path link by link; these theorems say what [sd] is. *)
From HpoV Require Import Model.Base Run.World Run.C01 Run.C11 Proofs.C11P.

Theorem C11_distance_is_a_chain_length : forall ts b fuel a d, sd fuel ts a b = Some d ->
  exists l, is_chain ts a l = true /\ last l a = b /\ Nlen l = d.
Proof. exact sd_sound. Qed.

Theorem C11_distance_is_minimal : forall ts b l fuel a, is_chain ts a l = true -> last l a = b ->
  (length l <= fuel)%nat -> exists d, sd fuel ts a b = Some d /\ d <= Nlen l.
Proof. exact sd_minimal. Qed.

Theorem C11_chain_is_walk : forall ts l a, is_chain ts a l = true -> is_walk ts a l = true.
Proof. exact is_walk_of_chain. Qed.

Print Assumptions C11_distance_is_a_chain_length.
Print Assumptions C11_distance_is_minimal.
Print Assumptions C11_chain_is_walk.
