(* Properties/C18.v — ontology comparison reports exactly the differences (C18).
   spec_C18 demands that the report of compare(old,new), compare(new,old), compare(old,old) and
   compare(old, reload(old)) equal the reference report [exp_cmp] computed from the two
   observations; part (a) says what the reference report is, part (b) is about the Gallina
   transcription of comparison.rs itself. *)
From Coq Require Import Sorted Permutation.
From HpoV Require Import Gen.Consts Model.Base Model.Group Model.Onto Model.Query Model.Dump Model.Compare
  Spec.Sets Proofs.GroupP Run.World Run.C18 Proofs.C18P Proofs.C18E Proofs.RecSortedP Proofs.SectionP Proofs.JaxP
  Model.Binary Model.Script Model.Text.

(* (a) added / removed are exact set differences of the term ids ... *)
Theorem C18_added_terms_exact : forall d1 d2 x,
  In x (tc_added (exp_tcmp d1 d2)) <-> In x (map d_id (do_terms d2)) /\ ~ In x (map d_id (do_terms d1)).
Proof. exact exp_terms_added. Qed.
Theorem C18_removed_terms_exact : forall d1 d2 x,
  In x (tc_removed (exp_tcmp d1 d2)) <-> In x (map d_id (do_terms d1)) /\ ~ In x (map d_id (do_terms d2)).
Proof. exact exp_terms_removed. Qed.
(* ... a term present in both is reported iff name, direct parents, obsolete flag or replacement differ ... *)
Theorem C18_changed_terms_exact : forall d1 d2 dl,
  In dl (tc_changed (exp_tcmp d1 d2)) <->
  exists t1 t2, In t1 (do_terms d1) /\ d_find (d_id t1) d2 = Some t2 /\ exp_tdelta t1 t2 = Some dl.
Proof. exact exp_terms_changed. Qed.
Theorem C18_term_unchanged_iff : forall t1 t2,
  exp_tdelta t1 t2 = None <->
  d_name t1 = d_name t2 /\ d_parents t1 = d_parents t2 /\ d_obsolete t1 = d_obsolete t2 /\ d_replby t1 = d_replby t2.
Proof. exact exp_tdelta_none. Qed.
(* ... and its delta lists exactly the added / removed parents and the old/new values *)
Theorem C18_term_delta_exact : forall t1 t2 id nm ad rm ob rp,
  exp_tdelta t1 t2 = Some (id, nm, ad, rm, ob, rp) ->
  id = d_id t1 /\
  (forall p, In p ad <-> In p (d_parents t2) /\ ~ In p (d_parents t1)) /\
  (forall p, In p rm <-> In p (d_parents t1) /\ ~ In p (d_parents t2)) /\
  (nm = [] /\ d_name t1 = d_name t2 \/ nm = [d_name t1; d_name t2] /\ d_name t1 <> d_name t2) /\
  (ob = [] /\ d_obsolete t1 = d_obsolete t2 \/ ob = [d_obsolete t1; d_obsolete t2] /\ d_obsolete t1 <> d_obsolete t2) /\
  (rp = [] /\ d_replby t1 = d_replby t2 \/ rp = [d_replby t1; d_replby t2] /\ d_replby t1 <> d_replby t2).
Proof. exact exp_tdelta_some. Qed.
(* the same for genes / OMIM / ORPHA records *)
Theorem C18_added_records_exact : forall k d1 d2 x,
  In x (ac_added (exp_acmp k d1 d2)) <-> In x (map da_id (do_records k d2)) /\ ~ In x (map da_id (do_records k d1)).
Proof. exact exp_records_added. Qed.
Theorem C18_removed_records_exact : forall k d1 d2 x,
  In x (ac_removed (exp_acmp k d1 d2)) <-> In x (map da_id (do_records k d1)) /\ ~ In x (map da_id (do_records k d2)).
Proof. exact exp_records_removed. Qed.
Theorem C18_changed_records_exact : forall k d1 d2 dl,
  In dl (ac_changed (exp_acmp k d1 d2)) <->
  exists r1 r2, In r1 (do_records k d1) /\ find_by da_id (da_id r1) (do_records k d2) = Some r2
                /\ exp_adelta r1 r2 = Some dl.
Proof. exact exp_records_changed. Qed.
Theorem C18_record_unchanged_iff : forall r1 r2,
  exp_adelta r1 r2 = None <-> da_name r1 = da_name r2 /\ da_hpos r1 = da_hpos r2.
Proof. exact exp_adelta_none. Qed.
Theorem C18_record_delta_exact : forall r1 r2 id nm n1 n2 ad rm,
  exp_adelta r1 r2 = Some (id, nm, (n1, n2), ad, rm) ->
  id = da_id r1 /\ n1 = Nlen (da_hpos r1) /\ n2 = Nlen (da_hpos r2) /\
  (forall t, In t ad <-> In t (da_hpos r2) /\ ~ In t (da_hpos r1)) /\
  (forall t, In t rm <-> In t (da_hpos r1) /\ ~ In t (da_hpos r2)) /\
  (nm = [] /\ da_name r1 = da_name r2 \/ nm = [da_name r1; da_name r2] /\ da_name r1 <> da_name r2).
Proof. exact exp_adelta_some. Qed.
Theorem C18_accepted_report_is_reference : forall a b, cmp_eqb a b = true -> ser_cmp a = ser_cmp b.
Proof. exact cmp_eqb_sound. Qed.

(* (b) the transcription of comparison.rs, for ALL ontologies *)
Theorem C18_model_added_terms : forall ol orr x,
  In x (added_terms ol orr) <-> exists t, In t (ar_terms (o_arena orr)) /\ t_id t = x /\ o_get x ol = None.
Proof. exact model_added_terms. Qed.
Theorem C18_model_added_records : forall k ol orr x,
  In x (added_records k ol orr) <-> exists r, In r (o_records k orr) /\ a_id r = x /\ an_find x (o_records k ol) = None.
Proof. exact model_added_records. Qed.
Theorem C18_model_swap_terms : forall ol orr,
  removed_terms ol orr = added_terms orr ol /\ added_terms ol orr = removed_terms orr ol.
Proof. exact model_swap_terms. Qed.
Theorem C18_model_swap_records : forall k ol orr,
  removed_records k ol orr = added_records k orr ol /\ added_records k ol orr = removed_records k orr ol.
Proof. exact model_swap_records. Qed.
(* comparing any well-formed ontology with itself reports nothing *)
Theorem C18_model_compare_self_empty : forall o, wf_cmp o -> compare o o = Ok empty_cmp.
Proof. exact model_compare_self. Qed.

(* two ontologies that agree on everything the comparison reads (term ids with name, direct parents,
   obsolete flag, replacement; record ids with name and direct terms) compare as equal *)
Theorem C18_model_compare_equivalent_empty : forall ol orr, wf_cmp ol -> wf_cmp orr -> cmp_equiv ol orr ->
  compare ol orr = Ok empty_cmp.
Proof. exact compare_equiv_empty. Qed.

(* COMPARING AN ONTOLOGY WITH ITS BINARY ROUND TRIP REPORTS NOTHING: for every Builder-built and every
   JAX-loaded ontology the format can carry and whose term and gene names fit the one-byte length
   field (longer names are cut by the writer: C07), for any record order in the file *)
Theorem C18_builder_roundtrip_compares_equal : forall icf s codes o order o'', run_script icf s = Ok (codes, Ok o) ->
  file_ok order o -> (forall l, Permutation (order l) l) ->
  (forall t, In t (ar_terms (o_arena o)) -> Nlen (t_name t) <= TERM_NAME_LIMIT) ->
  (forall r, In r (o_genes o) -> Nlen (a_name r) <= GENE_NAME_LIMIT) ->
  decode icf (encode_with order o) = Ok o'' -> compare o o'' = Ok empty_cmp.
Proof. exact builder_roundtrip_compares_equal. Qed.

Theorem C18_jax_roundtrip_compares_equal : forall icf tr obo genes hpoa o order o'', obo_closed obo ->
  load_jax icf tr obo genes hpoa = Ok o ->
  file_ok order o -> (forall l, Permutation (order l) l) ->
  (forall t, In t (ar_terms (o_arena o)) -> Nlen (t_name t) <= TERM_NAME_LIMIT) ->
  (forall r, In r (o_genes o) -> Nlen (a_name r) <= GENE_NAME_LIMIT) ->
  decode icf (encode_with order o) = Ok o'' -> compare o o'' = Ok empty_cmp.
Proof. exact jax_roundtrip_compares_equal. Qed.

(* the comparison RETURNS on any two well-formed ontologies (the resolving parent iterators it uses never
   meet a dangling id) *)
Theorem C18_model_compare_returns : forall ol orr, wf_cmp ol -> wf_cmp orr -> exists c, compare ol orr = Ok c.
Proof. exact compare_returns. Qed.

Print Assumptions C18_added_terms_exact.
Print Assumptions C18_removed_terms_exact.
Print Assumptions C18_changed_terms_exact.
Print Assumptions C18_term_unchanged_iff.
Print Assumptions C18_term_delta_exact.
Print Assumptions C18_added_records_exact.
Print Assumptions C18_removed_records_exact.
Print Assumptions C18_changed_records_exact.
Print Assumptions C18_record_unchanged_iff.
Print Assumptions C18_record_delta_exact.
Print Assumptions C18_accepted_report_is_reference.
Print Assumptions C18_model_added_terms.
Print Assumptions C18_model_added_records.
Print Assumptions C18_model_swap_terms.
Print Assumptions C18_model_swap_records.
Print Assumptions C18_model_compare_self_empty.
Print Assumptions C18_model_compare_equivalent_empty.
Print Assumptions C18_builder_roundtrip_compares_equal.
Print Assumptions C18_jax_roundtrip_compares_equal.
Print Assumptions C18_model_compare_returns.
