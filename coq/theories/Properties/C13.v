(* Properties/C13.v — HpoSet filters, replacements and aggregates (C13).
   Model-level characterisations; spec_C13 states all operations (child_nodes, modifier filter,
   unions, category counts, aggregated IC) against the observation and is evaluated on the crate. *)
From Coq Require Import Sorted.
From HpoV Require Import Model.Base Model.Group Model.Onto Model.Query Model.HSet Proofs.C13P.

Theorem C13_without_obsolete : forall o s r, hs_without_obsolete o s = Ok r ->
  StronglySorted N.lt r /\
  forall x, In x r <-> In x s /\ exists t, o_get x o = Some t /\ t_obsolete t = false.
Proof. exact without_obsolete_spec. Qed.

Theorem C13_with_replaced_obsolete : forall o s r, hs_with_replaced o s = Ok r ->
  StronglySorted N.lt r /\
  forall x, In x r <->
    exists m t, In m s /\ o_get m o = Some t /\ x = match t_repl t with Some rp => rp | None => m end.
Proof. exact with_replaced_spec. Qed.

Theorem C13_in_place_equals_copying : forall o s,
  hs_remove_obsolete o s = hs_without_obsolete o s /\
  hs_replace_obsolete o s = hs_with_replaced o s /\
  hs_remove_modifier o s = hs_without_modifier o s.
Proof. exact in_place_same. Qed.

(* child_nodes keeps exactly the members that are not an ancestor of any member *)
Theorem C13_child_nodes : forall o s r,
  (forall m t, In m s -> o_get m o = Some t -> StronglySorted N.lt (t_allp t)) ->
  hs_child_nodes o s = Ok r ->
  StronglySorted N.lt r /\
  forall x, In x r <-> In x s /\ ~ exists m t, In m s /\ o_get m o = Some t /\ In x (t_allp t).
Proof. exact child_nodes_spec. Qed.

(* without_modifier / remove_modifier keep exactly the members that are not modifier terms *)
Theorem C13_without_modifier : forall o s r, hs_without_modifier o s = Ok r ->
  StronglySorted N.lt r /\
  forall x, In x r <-> In x s /\ exists t, o_get x o = Some t /\ is_modifier o t = false.
Proof. exact without_modifier_spec. Qed.

Print Assumptions C13_without_obsolete.
Print Assumptions C13_with_replaced_obsolete.
Print Assumptions C13_in_place_equals_copying.
Print Assumptions C13_child_nodes.
Print Assumptions C13_without_modifier.
