(* Properties/C13.v — HpoSet filters, replacements and aggregates (C13).
   Model-level characterisations; spec_C13 states all operations (child_nodes, modifier filter,
   unions, category counts, aggregated IC) against the observation and is evaluated on the crate. *)
From Coq Require Import Sorted.
From HpoV Require Import Model.Base Model.Group Model.Onto Model.Query Model.HSet Proofs.C13P Proofs.C13U Proofs.ClosureP Proofs.C13T Model.Dump Run.World Run.C13 Spec.Sets Proofs.C13S.

Theorem C13_without_obsolete : forall o s r, hs_without_obsolete o s = Ok r ->
  StronglySorted N.lt r /\
  forall x, In x r <-> In x s /\ exists t, o_get x o = Some t /\ t_obsolete t = false.
Proof. exact without_obsolete_spec. Qed.

Theorem C13_with_replaced_obsolete : forall o s r, hs_with_replaced o s = Ok r ->
  StronglySorted N.lt r /\
  forall x, In x r <->
    exists m t, In m s /\ o_get m o = Some t /\ x = match t_repl t with Some rp => rp | None => m end.
Proof. exact with_replaced_spec. Qed.

Theorem C13_in_place_equals_copying : forall o s,
  hs_remove_obsolete o s = hs_without_obsolete o s /\
  hs_replace_obsolete o s = hs_with_replaced o s /\
  hs_remove_modifier o s = hs_without_modifier o s.
Proof. exact in_place_same. Qed.

(* child_nodes keeps exactly the members that are not an ancestor of any member *)
Theorem C13_child_nodes : forall o s r,
  (forall m t, In m s -> o_get m o = Some t -> StronglySorted N.lt (t_allp t)) ->
  hs_child_nodes o s = Ok r ->
  StronglySorted N.lt r /\
  forall x, In x r <-> In x s /\ ~ exists m t, In m s /\ o_get m o = Some t /\ In x (t_allp t).
Proof. exact child_nodes_spec. Qed.

(* without_modifier / remove_modifier keep exactly the members that are not modifier terms *)
Theorem C13_without_modifier : forall o s r, hs_without_modifier o s = Ok r ->
  StronglySorted N.lt r /\
  forall x, In x r <-> In x s /\ exists t, o_get x o = Some t /\ is_modifier o t = false.
Proof. exact without_modifier_spec. Qed.

(* the aggregates: gene / OMIM / ORPHA ids of a set = the union over its members (a sorted set) *)
Theorem C13_annotation_ids_are_the_union : forall k o s r,
  (forall x t, In x s -> o_get x o = Some t -> StronglySorted N.lt (t_annots k t)) ->
  hs_annot_ids k o s = Ok r ->
  StronglySorted N.lt r /\ forall g, In g r <-> exists x t, In x s /\ o_get x o = Some t /\ In g (t_annots k t).
Proof. exact annot_ids_spec. Qed.

(* the aggregated information content is calculate (records, size of that union), genes and OMIM *)
Theorem C13_information_content_of_the_union : forall icf o s g m, hs_information_content icf o s = Ok (g, m) ->
  exists gs ms, hs_annot_ids KGene o s = Ok gs /\ hs_annot_ids KOmim o s = Ok ms /\
    icf (Nlen (o_genes o)) (Nlen gs) = Ok g /\ icf (Nlen (o_omim o)) (Nlen ms) = Ok m.
Proof. exact information_content_spec. Qed.

(* categories(): one entry per category some member has, counting the members that have it *)
Theorem C13_category_counts : forall o s r, hs_categories o s = Ok r ->
  exists ts, resolve_all o s = Ok ts /\
    forall c n, In (c, n) r <-> (exists t, In t ts /\ In c (categories o t)) /\
                               n = Nlen (filter (N.eqb c) (concat (map (categories o) ts))).
Proof. exact categories_count_spec. Qed.

(* TOTALITY: on a set whose members are terms of the ontology every HpoSet operation returns (none of the
   expect("HpoTermId must be in Ontology") calls panics) *)
Theorem C13_operations_return : forall o, wf_ar (o_arena o) -> forall s, (forall x, In x s -> In x (ar_keys (o_arena o))) ->
  (exists r, hs_child_nodes o s = Ok r) /\ (exists r, hs_without_modifier o s = Ok r) /\
  (exists r, hs_without_obsolete o s = Ok r) /\ (exists r, hs_with_replaced o s = Ok r) /\
  (forall k, exists r, hs_annot_ids k o s = Ok r) /\ (exists r, hs_categories o s = Ok r).
Proof. exact hs_operations_return. Qed.

(* SOUNDNESS OF THE EXECUTABLE STATEMENT: what an observation accepted by spec_C13 says, set by set *)
Theorem C13_accepted_observation_means : forall i d rs, spec_C13 i (Ok (d, rs)) = true ->
  let '((_, tbl), sets) := i in
  length sets = length rs /\
  forall s0 r, In (s0, r) (combine sets rs) ->
  exists a b b' c c' e e' g m rr cats ic after,
    r = Ok (a, b, b', c, c', e, e', g, m, rr, cats, ic, after) /\
    let ts := members d s0 in
    (* every member occurs in the dump *)
    length ts = length (set_of s0) /\
    (* child_nodes *)
    (forall x, In x a <-> In x (set_of s0) /\ forall t, In t ts -> ~ In x (d_allp t)) /\
    (* modifier filter, obsolete filter: copying and in place *)
    (forall x, In x b <-> exists t, In t ts /\ d_id t = x /\ d_ismod t = 0) /\ b' = b /\
    (forall x, In x c <-> exists t, In t ts /\ d_id t = x /\ d_obsolete t = 0) /\ c' = c /\
    (* replacements *)
    (forall x, In x e <-> exists t, In t ts /\ x = match d_repl t with r0 :: _ => r0 | [] => d_id t end) /\ e' = e /\
    (* unions *)
    (forall x, In x g <-> exists t, In t ts /\ In x (d_genes t)) /\
    (forall x, In x m <-> exists t, In t ts /\ In x (d_omim t)) /\
    (forall x, In x rr <-> exists t, In t ts /\ In x (d_orpha t)) /\
    (* the sets changed in place were asked again: three follow-up observations *)
    length after = 3%nat.
Proof. exact spec_C13_sound. Qed.

Print Assumptions C13_without_obsolete.
Print Assumptions C13_with_replaced_obsolete.
Print Assumptions C13_in_place_equals_copying.
Print Assumptions C13_child_nodes.
Print Assumptions C13_without_modifier.
Print Assumptions C13_annotation_ids_are_the_union.
Print Assumptions C13_information_content_of_the_union.
Print Assumptions C13_category_counts.
Print Assumptions C13_operations_return.
Print Assumptions C13_accepted_observation_means.
