(* Properties/C16.v — the ontology is a function of the facts, not of their order (C16) *)
From Coq Require Import Relations.
From HpoV Require Import Gen.Consts Model.Base Model.Group Model.Onto Model.Dump Run.World Run.Ser Run.C16 Proofs.C15P Proofs.ClosureP Proofs.LinkP.

Theorem C16_all_orders_same_observation : forall i o, spec_C16 i o = true ->
  forall a b, In a o -> In b o -> ser_res a = ser_res b.
Proof. exact spec_C16_sound. Qed.

(* ---- about the Gallina transcription: the derived data are functions of the fact SETS ---- *)

(* ancestor sets depend only on the parent RELATION: two arenas with the same links (whatever the
   order in which terms and links were supplied, whatever the fuel) get the same ancestor sets *)
Theorem C16_model_closure_order_independent : forall fuel1 fuel2 a b a' b',
  wf_ar a -> wf_ar b ->
  (forall t, In t (ar_terms a) -> t_allp t = []) -> (forall t, In t (ar_terms b) -> t_allp t = []) ->
  (forall c p, parent_rel a c p <-> parent_rel b c p) ->
  connect_all fuel1 a = Ok a' -> connect_all fuel2 b = Ok b' ->
  forall ta tb, In ta (ar_terms a') -> In tb (ar_terms b') -> t_id ta = t_id tb ->
  forall x, In x (t_allp ta) <-> In x (t_allp tb).
Proof. exact closure_depends_on_links_only. Qed.

(* inherited annotations depend only on the SET of (annotation, term) facts: the characterisation
   of link_all mentions the fact list through membership only *)
Theorem C16_model_annotations_order_independent : forall k fuel facts a a', good k a -> (forall g, upclosed_except k g [] a) ->
  link_all k fuel facts a = Ok a' ->
  forall id x, has k a' id x <-> has k a id x \/ exists d, In (x, d) facts /\ In id (ar_keys a) /\ reach a d id.
Proof. exact link_all_membership. Qed.

Print Assumptions C16_all_orders_same_observation.
Print Assumptions C16_model_closure_order_independent.
Print Assumptions C16_model_annotations_order_independent.
