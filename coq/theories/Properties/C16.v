(* Properties/C16.v — the ontology is a function of the facts, not of their order (C16) *)
From Coq Require Import Relations Permutation.
From HpoV Require Import Gen.Consts Model.Base Model.Group Model.Onto Model.Dump Run.World Run.Ser Run.C16 Proofs.C15P Proofs.ClosureP Proofs.LinkP Proofs.RecordsP Proofs.C16M Model.Script Proofs.AllPathsP.

Theorem C16_all_orders_same_observation : forall i o, spec_C16 i o = true ->
  forall a b, In a o -> In b o -> ser_res a = ser_res b.
Proof. exact spec_C16_sound. Qed.

(* ---- about the Gallina transcription: the derived data are functions of the fact SETS ---- *)

(* ancestor sets depend only on the parent RELATION: two arenas with the same links (whatever the
   order in which terms and links were supplied, whatever the fuel) get the same ancestor sets *)
Theorem C16_model_closure_order_independent : forall fuel1 fuel2 a b a' b',
  wf_ar a -> wf_ar b ->
  (forall t, In t (ar_terms a) -> t_allp t = []) -> (forall t, In t (ar_terms b) -> t_allp t = []) ->
  (forall c p, parent_rel a c p <-> parent_rel b c p) ->
  connect_all fuel1 a = Ok a' -> connect_all fuel2 b = Ok b' ->
  forall ta tb, In ta (ar_terms a') -> In tb (ar_terms b') -> t_id ta = t_id tb ->
  forall x, In x (t_allp ta) <-> In x (t_allp tb).
Proof. exact closure_depends_on_links_only. Qed.

(* inherited annotations depend only on the SET of (annotation, term) facts: the characterisation
   of link_all mentions the fact list through membership only *)
Theorem C16_model_annotations_order_independent : forall k fuel facts a a', good k a -> (forall g, upclosed_except k g [] a) ->
  link_all k fuel facts a = Ok a' ->
  forall id x, has k a' id x <-> has k a id x \/ exists d, In (x, d) facts /\ In id (ar_keys a) /\ reach a d id.
Proof. exact link_all_membership. Qed.

(* THE PROPERTY FOR ANY TWO BUILDER SCRIPTS: whatever calls they make, in whatever order, with whatever
   failing calls — if the two finished ontologies agree on the direct facts (the is_a links, the record
   ids of each kind, the direct terms of every record), then every term has in both the same
   parents, children, ancestor cache, three annotation sets and information content *)
Theorem C16_builder_scripts_order_independent : forall icf s1 s2 c1 c2 o1 o2 t1 t2,
  run_script icf s1 = Ok (c1, Ok o1) -> run_script icf s2 = Ok (c2, Ok o2) -> same_facts o1 o2 ->
  In t1 (ar_terms (o_arena o1)) -> In t2 (ar_terms (o_arena o2)) -> t_id t2 = t_id t1 ->
  t_parents t2 = t_parents t1 /\ t_children t2 = t_children t1 /\ t_allp t2 = t_allp t1 /\
  (forall k, t_annots k t2 = t_annots k t1) /\ t_ic t2 = t_ic t1.
Proof. exact builder_scripts_order_independent. Qed.

(* THE ONTOLOGY IS A FUNCTION OF THE FACTS, ACROSS CONSTRUCTION PATHS: two [constructed] ontologies
   (Proofs/AllPathsP.v) — a Builder script and a JAX load, a binary file and a sub-ontology, any two
   public constructors with any input order — that state the same direct facts agree, term by
   term, on parents, children, ancestor caches, all three annotation sets and information content *)
Theorem C16_constructed_ontologies_with_same_facts_agree : forall icf o1 o2 t1 t2, constructed icf o1 -> constructed icf o2 ->
  same_facts o1 o2 ->
  In t1 (ar_terms (o_arena o1)) -> In t2 (ar_terms (o_arena o2)) -> t_id t2 = t_id t1 ->
  t_parents t2 = t_parents t1 /\ t_children t2 = t_children t1 /\ t_allp t2 = t_allp t1 /\
  (forall k, t_annots k t2 = t_annots k t1) /\ t_ic t2 = t_ic t1.
Proof. exact constructed_same_facts_agree. Qed.

Print Assumptions C16_all_orders_same_observation.
Print Assumptions C16_model_closure_order_independent.
Print Assumptions C16_model_annotations_order_independent.
Print Assumptions C16_builder_scripts_order_independent.
Print Assumptions C16_constructed_ontologies_with_same_facts_agree.
