(* Properties/C16.v — the ontology is a function of the facts, not of their order (C16) *)
From HpoV Require Import Model.Base Model.Dump Run.World Run.Ser Run.C16 Proofs.C15P.

Theorem C16_all_orders_same_observation : forall i o, spec_C16 i o = true ->
  forall a b, In a o -> In b o -> ser_res a = ser_res b.
Proof. exact spec_C16_sound. Qed.

Print Assumptions C16_all_orders_same_observation.
