(* Properties/C16.v — the ontology is a function of the facts, not of their order (C16) *)
From Coq Require Import Relations Permutation.
From HpoV Require Import Gen.Consts Model.Base Model.Group Model.Onto Model.Dump Run.World Run.Ser Run.C16 Proofs.C15P Proofs.ClosureP Proofs.LinkP Proofs.RecordsP Proofs.C16M Model.Script Proofs.AllPathsP Model.Binary Model.Text Proofs.DecodeAnyP Proofs.DecodeOrderP Proofs.JaxP Proofs.JaxDescribesP Proofs.JaxOrderP.

Theorem C16_all_orders_same_observation : forall i o, spec_C16 i o = true ->
  forall a b, In a o -> In b o -> ser_res a = ser_res b.
Proof. exact spec_C16_sound. Qed.

(* ---- about the Gallina transcription: the derived data are functions of the fact SETS ---- *)

(* ancestor sets depend only on the parent RELATION: two arenas with the same links (whatever the
   order in which terms and links were supplied, whatever the fuel) get the same ancestor sets *)
Theorem C16_model_closure_order_independent : forall fuel1 fuel2 a b a' b',
  wf_ar a -> wf_ar b ->
  (forall t, In t (ar_terms a) -> t_allp t = []) -> (forall t, In t (ar_terms b) -> t_allp t = []) ->
  (forall c p, parent_rel a c p <-> parent_rel b c p) ->
  connect_all fuel1 a = Ok a' -> connect_all fuel2 b = Ok b' ->
  forall ta tb, In ta (ar_terms a') -> In tb (ar_terms b') -> t_id ta = t_id tb ->
  forall x, In x (t_allp ta) <-> In x (t_allp tb).
Proof. exact closure_depends_on_links_only. Qed.

(* inherited annotations depend only on the SET of (annotation, term) facts: the characterisation
   of link_all mentions the fact list through membership only *)
Theorem C16_model_annotations_order_independent : forall k fuel facts a a', good k a -> (forall g, upclosed_except k g [] a) ->
  link_all k fuel facts a = Ok a' ->
  forall id x, has k a' id x <-> has k a id x \/ exists d, In (x, d) facts /\ In id (ar_keys a) /\ reach a d id.
Proof. exact link_all_membership. Qed.

(* THE PROPERTY FOR ANY TWO BUILDER SCRIPTS: whatever calls they make, in whatever order, with whatever
   failing calls — if the two finished ontologies agree on the direct facts (the is_a links, the record
   ids of each kind, the direct terms of every record), then every term has in both the same
   parents, children, ancestor cache, three annotation sets and information content *)
Theorem C16_builder_scripts_order_independent : forall icf s1 s2 c1 c2 o1 o2 t1 t2,
  run_script icf s1 = Ok (c1, Ok o1) -> run_script icf s2 = Ok (c2, Ok o2) -> same_facts o1 o2 ->
  In t1 (ar_terms (o_arena o1)) -> In t2 (ar_terms (o_arena o2)) -> t_id t2 = t_id t1 ->
  t_parents t2 = t_parents t1 /\ t_children t2 = t_children t1 /\ t_allp t2 = t_allp t1 /\
  (forall k, t_annots k t2 = t_annots k t1) /\ t_ic t2 = t_ic t1.
Proof. exact builder_scripts_order_independent. Qed.

(* THE ONTOLOGY IS A FUNCTION OF THE FACTS, ACROSS CONSTRUCTION PATHS: two [constructed] ontologies
   (Proofs/AllPathsP.v) — a Builder script and a JAX load, a binary file and a sub-ontology, any two
   public constructors with any input order — that state the same direct facts agree, term by
   term, on parents, children, ancestor caches, all three annotation sets and information content *)
Theorem C16_constructed_ontologies_with_same_facts_agree : forall icf o1 o2 t1 t2, constructed icf o1 -> constructed icf o2 ->
  same_facts o1 o2 ->
  In t1 (ar_terms (o_arena o1)) -> In t2 (ar_terms (o_arena o2)) -> t_id t2 = t_id t1 ->
  t_parents t2 = t_parents t1 /\ t_children t2 = t_children t1 /\ t_allp t2 = t_allp t1 /\
  (forall k, t_annots k t2 = t_annots k t1) /\ t_ic t2 = t_ic t1.
Proof. exact constructed_same_facts_agree. Qed.

(* TEXT FILES: two loads from JAX files that state the same facts - the same is_a pairs as collected by the
   scan of hp.obo, the same gene rows, the same disease rows, in whatever order stanzas and rows appear and
   however often a row is repeated - agree, term by term, on everything derived *)
Theorem C16_text_files_order_irrelevant : forall icf tr1 obo1 genes1 hpoa1 tr2 obo2 genes2 hpoa2 o1 o2 ob1 conns1 ob2 conns2 t1 t2,
  obo_closed obo1 -> obo_closed obo2 ->
  load_jax icf tr1 obo1 genes1 hpoa1 = Ok o1 -> load_jax icf tr2 obo2 genes2 hpoa2 = Ok o2 ->
  obo_scan obo1 = Ok (ob1, conns1) -> obo_scan obo2 = Ok (ob2, conns2) ->
  (forall c p, In (c, p) conns1 <-> In (c, p) conns2) ->
  (forall g x, gene_row tr1 genes1 g x <-> gene_row tr2 genes2 g x) ->
  (forall k g x, disease_row k hpoa1 g x <-> disease_row k hpoa2 g x) ->
  In t1 (ar_terms (o_arena o1)) -> In t2 (ar_terms (o_arena o2)) -> t_id t2 = t_id t1 ->
  t_parents t2 = t_parents t1 /\ t_children t2 = t_children t1 /\ t_allp t2 = t_allp t1 /\
  (forall k, t_annots k t2 = t_annots k t1) /\ t_ic t2 = t_ic t1.
Proof. exact jax_files_order_irrelevant. Qed.

(* stanzas of hp.obo and rows of the two annotation files in any order (tr: from_standard_transitive) *)
Theorem C16_text_files_any_order : forall icf tr obo1 genes1 hpoa1 obo2 genes2 hpoa2 o1 o2 t1 t2,
  obo_closed obo1 -> obo_closed obo2 ->
  load_jax icf tr obo1 genes1 hpoa1 = Ok o1 -> load_jax icf tr obo2 genes2 hpoa2 = Ok o2 ->
  Permutation (split_blank obo1 []) (split_blank obo2 []) ->
  Permutation (lines (snd (split_first_line genes1))) (lines (snd (split_first_line genes2))) ->
  Permutation (lines hpoa1) (lines hpoa2) ->
  In t1 (ar_terms (o_arena o1)) -> In t2 (ar_terms (o_arena o2)) -> t_id t2 = t_id t1 ->
  t_parents t2 = t_parents t1 /\ t_children t2 = t_children t1 /\ t_allp t2 = t_allp t1 /\
  (forall k, t_annots k t2 = t_annots k t1) /\ t_ic t2 = t_ic t1.
Proof. exact jax_files_any_order. Qed.

(* BINARY FILES: the order of records inside the sections (the statement of C08_record_order_irrelevant) *)
Theorem C16_binary_record_order_irrelevant : forall icf in1 in2 o1 o2 t1 t2,
  decode icf in1 = Ok o1 -> decode icf in2 = Ok o2 ->
  bin_closed in1 -> bin_closed in2 -> bin_distinct in1 -> bin_distinct in2 ->
  (forall k r d, In r (o_records k o1) -> In d (a_hpos r) -> In d (ar_keys (o_arena o1))) ->
  (forall k r d, In r (o_records k o2) -> In d (a_hpos r) -> In d (ar_keys (o_arena o2))) ->
  same_facts o1 o2 ->
  In t1 (ar_terms (o_arena o1)) -> In t2 (ar_terms (o_arena o2)) -> t_id t2 = t_id t1 ->
  t_parents t2 = t_parents t1 /\ t_children t2 = t_children t1 /\ t_allp t2 = t_allp t1 /\
  (forall k, t_annots k t2 = t_annots k t1) /\ t_ic t2 = t_ic t1.
Proof. exact decode_any_order_independent. Qed.

Print Assumptions C16_all_orders_same_observation.
Print Assumptions C16_model_closure_order_independent.
Print Assumptions C16_model_annotations_order_independent.
Print Assumptions C16_builder_scripts_order_independent.
Print Assumptions C16_constructed_ontologies_with_same_facts_agree.
Print Assumptions C16_text_files_order_irrelevant.
Print Assumptions C16_text_files_any_order.
Print Assumptions C16_binary_record_order_irrelevant.
