(* Properties/C08.v — the decoder honours v1-v3 and rejects truncated / extended / unknown-version
   files (C08).  Theorems about the Gallina transcription of Ontology::from_bytes and the
   parser/binary modules (Model/Binary.v [decode]), for EVERY byte string. *)
From HpoV Require Import Gen.Consts Model.Base Model.Onto Model.Binary Proofs.BinaryP Proofs.DecodeP.

(* any accepted file followed by any non-empty suffix is rejected with ParseBinaryError *)
Theorem C08_every_extension_rejected : forall icf f s o, decode icf f = Ok o -> s <> [] ->
  decode icf (f ++ s) = Err ParseBinaryError.
Proof. exact extension_rejected. Qed.

(* no proper prefix of an accepted file is accepted (it is an error or a panic, never an ontology) *)
Theorem C08_every_proper_prefix_rejected : forall icf f o n, decode icf f = Ok o -> (n < length f)%nat ->
  forall o', decode icf (firstn n f) <> Ok o'.
Proof. exact prefix_rejected. Qed.

Theorem C08_short_rejected : forall icf input, Nlen input < MIN_LEN -> decode icf input = Err ParseBinaryError.
Proof. exact decode_short. Qed.

Theorem C08_bad_version_rejected : forall icf v rest, v <> 2 -> v <> 3 -> rest <> [] ->
  decode icf (MAGIC_READER ++ [v] ++ rest) = Err NotImplemented.
Proof. exact decode_bad_version. Qed.

Theorem C08_writer_version_accepted : mem EMIT_VERSION ACCEPTED_VERSIONS = true /\ MAGIC_WRITER = MAGIC_READER.
Proof. exact writer_version_accepted. Qed.

Print Assumptions C08_every_extension_rejected.
Print Assumptions C08_every_proper_prefix_rejected.
Print Assumptions C08_short_rejected.
Print Assumptions C08_bad_version_rejected.
Print Assumptions C08_writer_version_accepted.
