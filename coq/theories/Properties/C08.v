(* Properties/C08.v — the decoder rejects short files and unsupported versions (C08, partial).
   The statements about *every* proper prefix and every extension of a valid file are decided by
   the correspondence run (every truncation offset of every generated file, on the model and on
   the crate) and by evaluating spec_C08 on the crate's outcomes; they are not yet theorems —
   see C08_full_statement below. *)
From HpoV Require Import Gen.Consts Model.Base Model.Onto Model.Binary Proofs.BinaryP.

Theorem C08_short_rejected : forall icf input, Nlen input < MIN_LEN -> decode icf input = Err ParseBinaryError.
Proof. exact decode_short. Qed.

Theorem C08_bad_version_rejected : forall icf v rest, v <> 2 -> v <> 3 -> rest <> [] ->
  decode icf (MAGIC_READER ++ [v] ++ rest) = Err NotImplemented.
Proof. exact decode_bad_version. Qed.

Theorem C08_writer_version_accepted : mem EMIT_VERSION ACCEPTED_VERSIONS = true /\ MAGIC_WRITER = MAGIC_READER.
Proof. exact writer_version_accepted. Qed.

(* the full statement this file is working towards *)
Definition C08_full_statement : Prop :=
  forall icf f o, decode icf f = Ok o ->
    (forall n, (n < length f)%nat -> forall o', decode icf (firstn n f) <> Ok o') /\
    (forall s, s <> [] -> forall o', decode icf (f ++ s) <> Ok o').

Print Assumptions C08_short_rejected.
Print Assumptions C08_bad_version_rejected.
Print Assumptions C08_writer_version_accepted.
