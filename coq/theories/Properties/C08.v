(* Properties/C08.v — the decoder honours v1-v3 and rejects truncated / extended / unknown-version
   files (C08).  Theorems about the Gallina transcription of Ontology::from_bytes and the
   parser/binary modules (Model/Binary.v [decode]), for EVERY byte string.
   Second half of the file: what an ACCEPTED byte string describes is what is returned
   (C08_accepted_file_describes_result), the result is a well-formed ontology
   (C08_accepted_file_is_wellformed) and does not depend on the order of records
   (C08_record_order_irrelevant) — for every input whose parent section names only stored terms
   (bin_closed) and whose annotation sections do not repeat a record id (bin_distinct).
   bin_sections / parse_parents / parse_records (Proofs/DecodeAnyP.v) are the reading of the
   documented layout these statements are relative to. *)
From Coq Require Import Permutation.
From HpoV Require Import Gen.Consts Model.Base Model.Group Model.Onto Model.Binary Proofs.BinaryP Proofs.DecodeP
  Proofs.ClosureP Proofs.AcyclicP Proofs.DistP Proofs.RecordsP Proofs.SectionP Proofs.RoundTripP Proofs.AnnotP Proofs.ReloadP Proofs.C16M
  Proofs.DecodeAnyP Proofs.DecodeOrderP Proofs.DecodeGP Proofs.LayoutV2P.

(* any accepted file followed by any non-empty suffix is rejected with ParseBinaryError *)
Theorem C08_every_extension_rejected : forall icf f s o, decode icf f = Ok o -> s <> [] ->
  decode icf (f ++ s) = Err ParseBinaryError.
Proof. exact extension_rejected. Qed.

(* no proper prefix of an accepted file is accepted (it is an error or a panic, never an ontology) *)
Theorem C08_every_proper_prefix_rejected : forall icf f o n, decode icf f = Ok o -> (n < length f)%nat ->
  forall o', decode icf (firstn n f) <> Ok o'.
Proof. exact prefix_rejected. Qed.

Theorem C08_short_rejected : forall icf input, Nlen input < MIN_LEN -> decode icf input = Err ParseBinaryError.
Proof. exact decode_short. Qed.

Theorem C08_bad_version_rejected : forall icf v rest, v <> 2 -> v <> 3 -> rest <> [] ->
  decode icf (MAGIC_READER ++ [v] ++ rest) = Err NotImplemented.
Proof. exact decode_bad_version. Qed.

Theorem C08_writer_version_accepted : mem EMIT_VERSION ACCEPTED_VERSIONS = true /\ MAGIC_WRITER = MAGIC_READER.
Proof. exact writer_version_accepted. Qed.

(* whatever from_bytes accepts (v1, v2 or v3) is a well-formed ontology: exact ancestor caches with
   children = parents^-1, acyclic, inherited annotation sets, IC = calculate(N, n), distinct
   record ids, default sets a fixed point of build_with_defaults *)
Theorem C08_accepted_file_is_wellformed : forall icf input o,
  decode icf input = Ok o -> bin_closed input -> bin_distinct input ->
  src_ok o /\ acyclic (o_arena o) /\ ann_ok o /\ ic_ok icf o /\
  (forall k, NoDup (map a_id (o_records k o))) /\ b_build_with_defaults o = Ok o.
Proof. exact decode_any_ok. Qed.

(* the ontology returned is the one the file describes: header version, one term per term record
   (position, id, name, flags), one direct link per (term, parent) pair of the parent section, the
   records of each annotation section in file order; no ORPHA records from a v1 / v2 file *)
Theorem C08_accepted_file_describes_result : forall icf input o,
  decode icf input = Ok o -> bin_closed input -> bin_distinct input ->
  exists v ver f st sp sg sm so a1 conns gs ms,
    bin_sections input = Ok (v, ver, f, (st, sp, sg, sm, so)) /\
    read_terms f v st arena_default = Ok a1 /\ parse_parents f sp 0 = Ok conns /\
    parse_records f KGene sg 0 = Ok gs /\ parse_records f KOmim sm 0 = Ok ms /\
    o_version o = ver /\
    core (ar_terms a1) (ar_terms (o_arena o)) /\
    (forall c p, parent_rel (o_arena o) c p <-> In (c, p) conns) /\
    o_records KGene o = gs /\ o_records KOmim o = ms /\
    match so with Some s => parse_records f KOrpha s 0 = Ok (o_records KOrpha o) | None => o_records KOrpha o = [] end.
Proof. exact decode_any_describes. Qed.

(* independent of the order of records inside a section *)
Theorem C08_record_order_irrelevant : forall icf in1 in2 o1 o2 t1 t2,
  decode icf in1 = Ok o1 -> decode icf in2 = Ok o2 ->
  bin_closed in1 -> bin_closed in2 -> bin_distinct in1 -> bin_distinct in2 ->
  (forall k r d, In r (o_records k o1) -> In d (a_hpos r) -> In d (ar_keys (o_arena o1))) ->
  (forall k r d, In r (o_records k o2) -> In d (a_hpos r) -> In d (ar_keys (o_arena o2))) ->
  same_facts o1 o2 ->
  In t1 (ar_terms (o_arena o1)) -> In t2 (ar_terms (o_arena o2)) -> t_id t2 = t_id t1 ->
  t_parents t2 = t_parents t1 /\ t_children t2 = t_children t1 /\ t_allp t2 = t_allp t1 /\
  (forall k, t_annots k t2 = t_annots k t1) /\ t_ic t2 = t_ic t1.
Proof. exact decode_any_order_independent. Qed.

(* writing an accepted file's ontology out again and loading that returns the same ontology *)
Theorem C08_accepted_file_reserialises : forall icf input o order o'',
  decode icf input = Ok o -> bin_closed input -> bin_distinct input ->
  file_ok order o -> (forall l, Permutation (order l) l) -> decode icf (encode_with order o) = Ok o'' ->
  Forall2 term_kept (ar_terms (o_arena o)) (ar_terms (o_arena o'')) /\
  Forall2 (fun t t'' => forall k, t_annots k t'' = t_annots k t) (ar_terms (o_arena o)) (ar_terms (o_arena o'')) /\
  Forall2 (fun t t'' => t_ic t'' = t_ic t) (ar_terms (o_arena o)) (ar_terms (o_arena o'')) /\
  (forall k, o_records k o'' = map (raw_record k) (order (o_records k o))) /\ o_version o'' = o_version o /\
  o_cat o'' = o_cat o /\ o_mod o'' = o_mod o.
Proof. exact decode_any_roundtrip. Qed.

(* the two conditions are satisfiable: the file written for two linked terms, a gene and a disease *)
Theorem C08_conditions_satisfiable :
  let t1 := mkTerm 1 [65] [] [] [118] [7] [3] [] (0, 0, 0) false None in
  let t2 := mkTerm 118 [66; 195; 182] [1] [1] [] [7] [3] [] (0, 0, 0) true (Some 1) in
  let o := mkOnto (mkArena (new_term [] 0) [t1; t2]) [mkAnnot 7 [103] [118]] [mkAnnot 3 [100] [118]] [] (2024, 3, 1) [] [] in
  let input := encode_with (fun l => l) o in
  (exists o', decode (fun _ _ => Ok 0) input = Ok o') /\ bin_closed input /\ bin_distinct input.
Proof. exact decode_any_example. Qed.

(* the evaluator the correspondence run executes on damaged files (Run/C08.v [dec]) is the transcription *)
Theorem C08_guarded_evaluator_is_decode : forall icf input, decode_g icf input = decode icf input.
Proof. exact decode_g_eq. Qed.

(* LAYOUTS v2 AND v1 (Proofs/LayoutV2P.v).  The crate writes only v3; [layout_v2] and [layout_v1] are the
   documented older layouts (v2: magic, version byte 2, release, four sections - no ORPHA; v1: no magic, no
   release, term records without flag and replacement).  For every ontology the layout can carry, from_bytes
   on such a file is the Builder pipeline on exactly the facts the file holds. *)
Theorem C08_layout_v2_is_honoured : forall icf order o, file_ok order o -> order (o_orpha o) = [] ->
  decode icf (layout_v2 order o) = rebuild icf order o.
Proof. exact decode_layout_v2_is_rebuild. Qed.

Theorem C08_layout_v2_decodes_like_v3 : forall icf order o, file_ok order o -> order (o_orpha o) = [] ->
  decode icf (layout_v2 order o) = decode icf (encode_with order o).
Proof. exact layout_v2_decodes_like_v3. Qed.

Theorem C08_layout_v1_is_honoured : forall icf order o, file_ok_v1 order o ->
  decode icf (layout_v1 order o) = rebuild_v1 icf order o.
Proof. exact decode_layout_v1_is_rebuild. Qed.

Theorem C08_layout_v1_is_v3_without_flags : forall icf order o, order [] = [] ->
  rebuild_v1 icf order o = rebuild icf order (as_v1 o).
Proof. exact rebuild_v1_is_rebuild_of_plain. Qed.

Theorem C08_layout_v1_satisfiable :
  let t1 := mkTerm 1 [65] [] [] [118] [7] [3] [] (0, 0, 0) false None in
  let t2 := mkTerm 118 [66; 195; 182] [1] [1] [] [7] [3] [] (0, 0, 0) false None in
  let o := mkOnto (mkArena (new_term [] 0) [t1; t2]) [mkAnnot 7 [103] [118]] [mkAnnot 3 [100] [118]] [] (0, 0, 0) [] [] in
  file_ok_v1 (fun l => l) o /\
  (exists r, decode (fun _ _ => Ok 0) (layout_v1 (fun l => l) o) = Ok r /\ map t_id (ar_terms (o_arena r)) = [1; 118]).
Proof. exact file_ok_v1_example. Qed.

Print Assumptions C08_every_extension_rejected.
Print Assumptions C08_every_proper_prefix_rejected.
Print Assumptions C08_short_rejected.
Print Assumptions C08_bad_version_rejected.
Print Assumptions C08_writer_version_accepted.
Print Assumptions C08_accepted_file_is_wellformed.
Print Assumptions C08_accepted_file_describes_result.
Print Assumptions C08_record_order_irrelevant.
Print Assumptions C08_accepted_file_reserialises.
Print Assumptions C08_conditions_satisfiable.
Print Assumptions C08_guarded_evaluator_is_decode.
Print Assumptions C08_layout_v2_is_honoured.
Print Assumptions C08_layout_v2_decodes_like_v3.
Print Assumptions C08_layout_v1_is_honoured.
Print Assumptions C08_layout_v1_is_v3_without_flags.
Print Assumptions C08_layout_v1_satisfiable.
