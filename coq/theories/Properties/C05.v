(* Properties/C05.v — set similarity combines the pairwise matrix as funSimAvg / funSimMax / BMA (C05).
   Theorems about the Gallina transcription of src/matrix.rs and src/similarity.rs, for matrices of
   EVERY size, every element type / number structure and every (also asymmetric) similarity. *)
From HpoV Require Import Model.Base Model.F32 Model.Matrix Model.Combine Spec.CombineSpec Run.C05 Proofs.C05P Proofs.C05M.

(* Matrix::rows / Matrix::cols are exactly the index arithmetic of a row-major matrix *)
Theorem C05_rows_are_index_arithmetic : forall (A : Type) (d : A) (m : matrix A),
  wf_matrix m -> (0 < m_cols m)%nat -> m_rows_iter m = Ok (rows_ref d m).
Proof. exact @rows_are_index_arithmetic. Qed.
Theorem C05_cols_are_index_arithmetic : forall (A : Type) (d : A) (m : matrix A),
  wf_matrix m -> (0 < m_rows m)%nat -> m_cols_iter m = cols_ref d m.
Proof. exact @cols_are_index_arithmetic. Qed.

(* SimilarityCombiner::calculate (binary32 instance) = the documented formula over the row and
   column maxima, for every well-formed matrix, square or not; 0 for an empty one *)
Theorem C05_calculate_is_documented_formula : forall c (m : matrix f32),
  wf_matrix m -> N.of_nat (m_rows m) <= 65535 -> N.of_nat (m_cols m) <= 65535 ->
  c_calc c m = Ok (ref_calc32 c m).
Proof. exact (calculate_is_documented_formula f32 fadd fdiv fmax fgt f_zero f_nzero f_two f_of_N). Qed.
Theorem C05_empty_is_zero : forall c (m : matrix f32), m_data m = [] -> c_calc c m = Ok f_zero.
Proof. exact (empty_matrix_is_zero f32 fadd fdiv fmax fgt f_zero f_nzero f_two f_of_N). Qed.

(* GroupSimilarity::calculate hands the combiner the |A| x |B| row-major matrix of sim(a_i, b_j) *)
Theorem C05_pairwise_matrix : forall (f : N -> N -> f32) a b s,
  pair_loop f32 unit (plain_sim f32 f) a b s = (s, flat_map (fun x => map (f x) b) a)
  /\ wf_matrix (mkMat (length a) (length b) (flat_map (fun x => map (f x) b) a)).
Proof. exact (fun f a b s => conj (pair_loop_plain f32 f a b s) (pairwise_matrix_wf f32 f a b)). Qed.

(* wrapping the similarity in the caching adaptor never changes a result: for every similarity,
   every combiner, every pair of sets and every cache state reachable from the empty cache *)
Theorem C05_cache_transparent : forall (f : N -> N -> f32) cmb a b c, cache_inv f32 f c ->
  snd (group_calculate f32 fadd fdiv fmax fgt f_zero f_nzero f_two f_of_N (cache f32) (cached_sim f32 f) cmb a b c)
  = snd (group_calculate f32 fadd fdiv fmax fgt f_zero f_nzero f_two f_of_N unit (plain_sim f32 f) cmb a b tt)
  /\ cache_inv f32 f (fst (group_calculate f32 fadd fdiv fmax fgt f_zero f_nzero f_two f_of_N (cache f32) (cached_sim f32 f) cmb a b c)).
Proof. exact (cache_transparent f32 fadd fdiv fmax fgt f_zero f_nzero f_two f_of_N). Qed.
Theorem C05_empty_cache_ok : forall (f : N -> N -> f32), cache_inv f32 f [].
Proof. exact (cache_inv_nil f32). Qed.

(* with a symmetric similarity the result does not depend on the argument order — in every
   number structure whose addition and maximum are commutative (IEEE-754 addition is; f32::max
   is up to the sign of a zero result, which the check does not compare) *)
Theorem C05_symmetric_order_independent : forall (F : Type) (fadd fdiv fmax : F -> F -> F) (fgt : F -> F -> bool)
  (fzero fnzero ftwo : F) (f_of_u16 : N -> F) (f : N -> N -> F),
  (forall x y, fadd x y = fadd y x) -> (forall x y, fmax x y = fmax y x) -> (forall x y, f x y = f y x) ->
  forall cmb a b,
    ref_calc F fadd fdiv fmax fgt fzero fnzero ftwo f_of_u16 cmb (pairwise F f b a)
    = ref_calc F fadd fdiv fmax fgt fzero fnzero ftwo f_of_u16 cmb (pairwise F f a b).
Proof. exact symmetric_similarity_order_independent. Qed.

(* THE TRANSCRIPTION MEETS THE EXECUTABLE STATEMENT ON EVERY MATRIX: what the check evaluates on the crate's
   observation of the generated matrices (row / column maxima and the three combiners against the index
   arithmetic of a row-major matrix) holds of the model for all dimensions and all data *)
Theorem C05_model_meets_statement_on_matrices : forall r c data,
  spec_C05 (CMat r c data) (run_C05 (CMat r c data)) = true.
Proof. exact spec_C05_matrix_model. Qed.

Print Assumptions C05_rows_are_index_arithmetic.
Print Assumptions C05_cols_are_index_arithmetic.
Print Assumptions C05_calculate_is_documented_formula.
Print Assumptions C05_empty_is_zero.
Print Assumptions C05_pairwise_matrix.
Print Assumptions C05_cache_transparent.
Print Assumptions C05_empty_cache_ok.
Print Assumptions C05_symmetric_order_independent.
Print Assumptions C05_model_meets_statement_on_matrices.
