(* Properties/C09.v — JAX text loaders (C09).
   spec_C09 (Run/C09.v) demands, on the crate's observations, that from_standard and
   from_standard_transitive on the rendered files, the Builder API and the binary format all yield
   the same dump, and that this dump is exactly the one the facts describe (one term per [Term]
   stanza with name / obsolete / replaced_by / is_a, data-version, one record per gene / disease
   with a non-NOT row and exactly those direct terms, C01-C03 statements on everything derived).
   The theorems are about the byte-level text functions of the Gallina transcription
   (Model/Text.v).  PARTIAL: the file-level statement parse(render F) = F is not yet a theorem. *)
From HpoV Require Import Gen.Consts Model.Base Model.Binary Model.TermId Model.Text Proofs.C09P Proofs.C20P.

Theorem C09_split_inverts_join : forall b ps, ps <> [] -> Forall (no_byte b) ps ->
  split_byte b (join_byte b ps) [] = ps.
Proof. exact split_byte_join. Qed.

Theorem C09_strip_prefix : forall p s, strip_prefix p (p ++ s) = Some s.
Proof. exact strip_prefix_app. Qed.

Theorem C09_key_value_line : forall k v, ~ In 58 k -> split_once2 58 32 (k ++ 58 :: 32 :: v) [] = Some (k, v).
Proof. exact key_value_line. Qed.

Theorem C09_isa_line_id : forall idtxt label, ~ In 32 idtxt ->
  split_once1 32 (idtxt ++ 32 :: label) [] = Some (idtxt, label).
Proof. exact isa_line_id. Qed.

(* term ids in the files are written HP:%07d: parsing that rendering returns the id (every u32) *)
Theorem C09_term_id_text : forall n, n <= U32_MAX -> parse_id (show n) = Ok n.
Proof. exact parse_show. Qed.

Print Assumptions C09_split_inverts_join.
Print Assumptions C09_strip_prefix.
Print Assumptions C09_key_value_line.
Print Assumptions C09_isa_line_id.
Print Assumptions C09_term_id_text.
