(* Properties/C09.v — JAX text loaders (C09).
   spec_C09 (Run/C09.v) demands, on the crate's observations, that from_standard and
   from_standard_transitive on the rendered files, the Builder API and the binary format all yield
   the same dump, and that this dump is exactly the one the facts describe (one term per [Term]
   stanza with name / obsolete / replaced_by / is_a, data-version, one record per gene / disease
   with a non-NOT row and exactly those direct terms, C01-C03 statements on everything derived).
   The theorems are about the byte-level text functions of the Gallina transcription
   (Model/Text.v).  PARTIAL: the file-level statement parse(render F) = F is not yet a theorem. *)
From HpoV Require Import Gen.Consts Model.Base Model.Group Model.Onto Model.Binary Model.TermId Model.Text Proofs.C09P Proofs.C20P Proofs.C09G Proofs.DistP Proofs.AcyclicP Proofs.AnnotP Proofs.ReloadP Proofs.JaxP Proofs.ClosureP Proofs.RecordsP Proofs.RoundTripP Proofs.C16M Proofs.JaxDescribesP Model.Script.

Theorem C09_split_inverts_join : forall b ps, ps <> [] -> Forall (no_byte b) ps ->
  split_byte b (join_byte b ps) [] = ps.
Proof. exact split_byte_join. Qed.

Theorem C09_strip_prefix : forall p s, strip_prefix p (p ++ s) = Some s.
Proof. exact strip_prefix_app. Qed.

Theorem C09_key_value_line : forall k v, ~ In 58 k -> split_once2 58 32 (k ++ 58 :: 32 :: v) [] = Some (k, v).
Proof. exact key_value_line. Qed.

Theorem C09_isa_line_id : forall idtxt label, ~ In 32 idtxt ->
  split_once1 32 (idtxt ++ 32 :: label) [] = Some (idtxt, label).
Proof. exact isa_line_id. Qed.

(* term ids in the files are written HP:%07d: parsing that rendering returns the id (every u32) *)
Theorem C09_term_id_text : forall n, n <= U32_MAX -> parse_id (show n) = Ok n.
Proof. exact parse_show. Qed.

(* `lines` inverts joining by \n (no \n inside a line, no trailing \r, last line non-empty) *)
Theorem C09_lines_invert_join : forall ls, ls <> [] -> Forall plain_line ls -> last ls [] <> [] ->
  lines (join_byte NL ls) = ls.
Proof. exact lines_join. Qed.

(* ONE [Term] STANZA as the JAX file writes it — id, name, any other `tag: value` lines (tags other
   than the five the loader reads), `is_a: HP:x ! label` lines, is_obsolete, replaced_by —
   is read back as exactly that term: name (also with ': ' or non-ASCII text inside), obsolete
   flag, replacement ... *)
Theorem C09_term_stanza : forall t parents extras, stanza_ok t parents extras ->
  term_from_obo (join_byte NL (stanza_lines t parents extras)) =
    Ok (Some (set_flags (t_obsolete t) (t_repl t) (new_term (t_name t) (t_id t)))).
Proof. exact term_from_obo_render. Qed.

(* ... and yields exactly one (term, parent) connection per is_a line, nothing for any other line *)
Theorem C09_term_stanza_connections : forall t parents extras, stanza_ok t parents extras ->
  connections_of (join_byte NL (stanza_lines t parents extras)) (t_id t)
  = Ok (map (fun p => (t_id t, fst p)) parents).
Proof. exact connections_render. Qed.

(* str::split("\n\n") inverts joining non-empty chunks without an inner blank line by one blank line *)
Theorem C09_split_inverts_blank_join : forall cs, cs <> [] -> Forall (fun c => c <> [] /\ no_blank c) cs ->
  split_blank (join_blank cs) [] = cs.
Proof. exact split_blank_join. Qed.

(* THE WHOLE OBO FILE: a header chunk followed by any number of rendered [Term] stanzas, separated by
   one blank line each, is read as: the release version of the header; every stanza's term added in
   file order (Arena::insert keeps the first of two stanzas with one id); and exactly the is_a links
   of the stanzas, applied after all terms are known.  Nothing else of the file reaches the ontology. *)
Theorem C09_read_obo_file : forall header (stanzas : list (term * list (N * bytes) * list (bytes * bytes))) o,
  header_ok header ->
  Forall (fun x : term * list (N * bytes) * list (bytes * bytes) => let '(t, ps, ex) := x in stanza_ok t ps ex) stanzas ->
  read_obo (join_blank (header :: map (fun x : term * list (N * bytes) * list (bytes * bytes) => let '(t, ps, ex) := x in term_chunk t ps ex) stanzas)) o
  = do v <- version_from_obo (lines header) ;;
    do r <- foldM obo_step stanzas (set_version (match v with Some x => x | None => (0, 0, 0) end) o, []) ;;
    let (o1, conns) := r : onto * list (N * N) in
    do a <- foldM (fun a (cp : N * N) => b_add_parent_unchecked (snd cp) (fst cp) a) conns (o_arena o1) ;;
    Ok (set_arena a o1).
Proof. exact read_obo_render. Qed.

(* THE GENE FILE (genes_to_phenotype.txt / phenotype_to_genes.txt): header line + rows, with or without
   a final newline, is read as exactly one annotate_gene call per row, in file order *)
Theorem C09_gene_file : forall tr hdr rows (final_nl : bool) o, gene_header_ok hdr -> rows <> [] ->
  Forall gene_row_ok rows ->
  parse_gene_file tr (hdr ++ NL :: join_byte NL (map (gene_line tr) rows) ++ (if final_nl then [NL] else [])) o
  = foldM gene_step rows o.
Proof. exact parse_gene_file_render. Qed.

(* phenotype.hpoa: any mix of comment / header / other-database lines and OMIM / ORPHA rows is read as
   one annotate_omim_disease / annotate_orpha_disease call per non-NOT row; NOT rows and all other
   lines contribute nothing *)
Theorem C09_hpoa_file : forall items (final_nl : bool) o, items <> [] -> Forall item_ok items ->
  parse_hpoa (join_byte NL (map item_line items) ++ (if final_nl then [NL] else [])) o = foldM hpoa_step items o.
Proof. exact parse_hpoa_render. Qed.

(* rows rendered from ids (decimal of any width, HP:%07d) meet the premises *)
Theorem C09_rendered_gene_row : forall k g sym h mid extra, (0 < k)%nat -> g < 10 ^ N.of_nat k -> g <= U32_MAX -> h <= U32_MAX ->
  Forall field (sym :: mid :: extra) -> gene_row_ok (mkGeneRow (digits k g) g sym (show h) h mid extra).
Proof. exact rendered_gene_row_ok. Qed.

Theorem C09_rendered_disease_row : forall om k d name isnot q h tail, (0 < k)%nat -> d < 10 ^ N.of_nat k -> d <= U32_MAX -> h <= U32_MAX ->
  field name -> field q -> q <> s_NOT -> clean tail -> tail <> [] -> is_ws (last tail 0) = false ->
  dis_row_ok (mkDisRow om (digits k d) d name isnot q (show h) h tail).
Proof. exact rendered_dis_row_ok. Qed.

(* BOTH LOADERS (from_standard / from_standard_transitive): whenever the load succeeds on files whose
   hp.obo names only is_a targets that have their own [Term] stanza, the ontology satisfies the
   statements proved of Builder-built ontologies — every ancestor cache is exactly the transitive
   closure (C01), the graph is acyclic, every term carries exactly the annotations with a direct
   row at the term or at one of its descendants (C02), and the information content is
   calculate (number of records, number of annotations) for each kind (C03) *)
Theorem C09_loaded_ontologies_satisfy_C01_C02_C03 : forall icf tr obo genes hpoa o, obo_closed obo ->
  load_jax icf tr obo genes hpoa = Ok o -> qgood o /\ acyclic (o_arena o) /\ ann_ok o /\ ic_ok icf o.
Proof. exact load_jax_ok. Qed.

(* WHAT THE THREE FILES SAY IS WHAT IS LOADED: the version of the header, one term per [Term] stanza
   as scanned (id, name, obsolete flag, replacement), one direct link per is_a line, and for every
   record exactly the direct terms its rows name (gene rows: lines after the header of the gene
   file that parse; disease rows: lines of phenotype.hpoa starting with OMIM / ORPHA that are not
   NOT rows) — for from_standard and from_standard_transitive alike *)
Theorem C09_loaded_ontology_is_what_the_files_say : forall icf tr obo genes hpoa o, obo_closed obo ->
  load_jax icf tr obo genes hpoa = Ok o ->
  exists ob conns, obo_scan obo = Ok (ob, conns) /\
    o_version o = o_version ob /\
    core (ar_terms (o_arena ob)) (ar_terms (o_arena o)) /\
    (forall c p, parent_rel (o_arena o) c p <-> In (c, p) conns) /\
    (forall g x, In x (direct KGene o g) <-> gene_row tr genes g x) /\
    (forall g x, In x (direct KOmim o g) <-> disease_row KOmim hpoa g x) /\
    (forall g x, In x (direct KOrpha o g) <-> disease_row KOrpha hpoa g x).
Proof. exact load_jax_describes. Qed.

Print Assumptions C09_split_inverts_join.
Print Assumptions C09_strip_prefix.
Print Assumptions C09_key_value_line.
Print Assumptions C09_isa_line_id.
Print Assumptions C09_term_id_text.
Print Assumptions C09_lines_invert_join.
Print Assumptions C09_term_stanza.
Print Assumptions C09_term_stanza_connections.
Print Assumptions C09_split_inverts_blank_join.
Print Assumptions C09_read_obo_file.
Print Assumptions C09_gene_file.
Print Assumptions C09_hpoa_file.
Print Assumptions C09_rendered_gene_row.
Print Assumptions C09_rendered_disease_row.
Print Assumptions C09_loaded_ontologies_satisfy_C01_C02_C03.
(* LOADER = BUILDER: an ontology loaded from the JAX files and one built through the Builder API (any
   script, any call order) that state the same direct facts — same is_a links, same record ids, same
   direct terms per record — agree, term by term, on parents, children, ancestor caches, all three
   annotation sets and the information content *)
Theorem C09_loader_equals_builder : forall icf tr obo genes hpoa o1 s codes o2 t1 t2,
  obo_closed obo -> load_jax icf tr obo genes hpoa = Ok o1 -> run_script icf s = Ok (codes, Ok o2) ->
  same_facts o1 o2 ->
  In t1 (ar_terms (o_arena o1)) -> In t2 (ar_terms (o_arena o2)) -> t_id t2 = t_id t1 ->
  t_parents t2 = t_parents t1 /\ t_children t2 = t_children t1 /\ t_allp t2 = t_allp t1 /\
  (forall k, t_annots k t2 = t_annots k t1) /\ t_ic t2 = t_ic t1.
Proof. exact jax_equals_builder. Qed.

Print Assumptions C09_loaded_ontology_is_what_the_files_say.
Print Assumptions C09_loader_equals_builder.
