(* Properties/C12.v — term-id groups behave as sorted sets (C12).
   Only statements; every proof is `exact <lemma>`. *)
From Coq Require Import Sorted.
From HpoV Require Import Model.Base Model.Group Model.Onto Model.Query Spec.Sets Proofs.GroupP Proofs.SetsP Proofs.C12P Proofs.C12tP Run.C12.

(* a group is well-formed when it is strictly ascending (hence duplicate-free) *)
Definition wf (g : group) : Prop := StronglySorted N.lt g.

Theorem C12_insert : forall x g, wf g ->
  wf (fst (g_insert x g)) /\
  (forall z, In z (fst (g_insert x g)) <-> z = x \/ In z g) /\
  snd (g_insert x g) = negb (mem x g).
Proof. exact (fun x g H => conj (g_insert_sorted x g H) (conj (g_insert_In x g) (g_insert_flag x g H))). Qed.

Theorem C12_contains : forall x g, wf g -> (g_contains x g = true <-> In x g).
Proof. exact g_contains_spec. Qed.

Theorem C12_iter_strictly_ascending : forall g, wf g -> NoDup g /\
  forall i j x y, (i < j)%nat -> nth_error g i = Some x -> nth_error g j = Some y -> x < y.
Proof. exact (fun g H => conj (sorted_NoDup g H) (sorted_nth_lt g H)). Qed.

Theorem C12_constructors : forall l, wf (g_from_list l) /\ forall z, In z (g_from_list l) <-> In z l.
Proof. exact (fun l => conj (g_from_list_sorted l) (g_from_list_In l)). Qed.

Theorem C12_union : forall a b, wf a -> wf b ->
  wf (g_union a b) /\ forall z, In z (g_union a b) <-> In z a \/ In z b.
Proof. exact (fun a b Ha Hb => conj (g_union_sorted a b Ha Hb) (g_union_In a b)). Qed.

Theorem C12_inter : forall a b, wf a -> wf b ->
  wf (g_inter a b) /\ forall z, In z (g_inter a b) <-> In z a /\ In z b.
Proof. exact (fun a b Ha Hb => conj (g_inter_sorted a b Ha Hb) (g_inter_In a b)). Qed.

Theorem C12_add_id : forall g x, wf g ->
  wf (g_plus g x) /\ g_bitor_id g x = g_plus g x /\ forall z, In z (g_plus g x) <-> z = x \/ In z g.
Proof. exact (fun g x H => conj (g_add_sorted g x H) (conj eq_refl (g_add_In g x))). Qed.

(* set equalities are list equalities: two well-formed groups with the same members are equal,
   so | and & are commutative as lists (used by the symmetry theorems of C04/C05) *)
Theorem C12_extensional : forall a b, wf a -> wf b -> (forall x, In x a <-> In x b) -> a = b.
Proof. exact sorted_ext. Qed.

Theorem C12_union_comm : forall a b, wf a -> wf b -> g_union a b = g_union b a.
Proof. exact g_union_comm. Qed.

Theorem C12_inter_comm : forall a b, wf a -> wf b -> g_inter a b = g_inter b a.
Proof. exact g_inter_comm. Qed.

(* the executable statement used on the implementation's observations holds of the model on
   every case, and says what it should: its reference sets are the canonical sorted sets *)
Theorem C12_model : forall c, spec_C12 c (run_C12 c) = true.
Proof. exact C12_model_lemma. Qed.

Theorem C12_spec_reference : forall l, wf (set_of l) /\ forall z, In z (set_of l) <-> In z l.
Proof. exact (fun l => conj (set_of_sorted l) (set_of_In l)). Qed.

(* the ancestor queries of two terms (hpoterm.rs): intersection / union of the two ancestor groups,
   the terms themselves added on both sides in all_common_ancestor_ids only *)
Theorem C12_common_ancestors : forall a b, wf (t_allp a) -> wf (t_allp b) ->
  wf (common_ancestor_ids a b) /\ forall z, In z (common_ancestor_ids a b) <-> In z (t_allp a) /\ In z (t_allp b).
Proof. exact common_ancestor_ids_spec. Qed.

Theorem C12_all_common_ancestors : forall a b, wf (t_allp a) -> wf (t_allp b) ->
  wf (all_common_ancestor_ids a b) /\ forall z, In z (all_common_ancestor_ids a b) <->
            (z = t_id a \/ In z (t_allp a)) /\ (z = t_id b \/ In z (t_allp b)).
Proof. exact all_common_ancestor_ids_spec. Qed.

Theorem C12_union_ancestors : forall a b, wf (t_allp a) -> wf (t_allp b) ->
  wf (union_ancestor_ids a b) /\ all_union_ancestor_ids a b = union_ancestor_ids a b /\
  forall z, In z (union_ancestor_ids a b) <-> In z (t_allp a) \/ In z (t_allp b).
Proof. exact union_ancestor_ids_spec. Qed.

Theorem C12_ancestor_queries_symmetric : forall a b, wf (t_allp a) -> wf (t_allp b) ->
  common_ancestor_ids a b = common_ancestor_ids b a /\
  all_common_ancestor_ids a b = all_common_ancestor_ids b a /\
  union_ancestor_ids a b = union_ancestor_ids b a.
Proof. exact ancestor_queries_symmetric. Qed.

Print Assumptions C12_insert.
Print Assumptions C12_contains.
Print Assumptions C12_iter_strictly_ascending.
Print Assumptions C12_constructors.
Print Assumptions C12_union.
Print Assumptions C12_inter.
Print Assumptions C12_add_id.
Print Assumptions C12_extensional.
Print Assumptions C12_union_comm.
Print Assumptions C12_inter_comm.
Print Assumptions C12_model.
Print Assumptions C12_spec_reference.
Print Assumptions C12_common_ancestors.
Print Assumptions C12_all_common_ancestors.
Print Assumptions C12_union_ancestors.
Print Assumptions C12_ancestor_queries_symmetric.
