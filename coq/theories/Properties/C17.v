(* Properties/C17.v — hierarchical clustering returns a valid dendrogram built from closest pairs (C17).
   spec_C17 (Run/C17.v) replays the crate's reported merges against a reference state: n-1 merges,
   both nodes live, no live pair strictly closer, the reported distance, sizes adding up, the k-th
   merge becoming node n+k, distances to it following the method, one cluster of size n at the end,
   leaf order a permutation, initial callback pairs each exactly once.  The theorems below are about
   the Gallina transcription (Model/Linkage.v) and about the reference functions. *)
From Coq Require Import Permutation.
From HpoV Require Import Model.Base Model.Group Model.Linkage Run.C17 Proofs.C17P Proofs.C17R.

(* utils::Combinations, for EVERY fuel: what the iterator state machine yields from state
   (idx1, idx2) is the rest of row idx1 followed by all later rows, live entries only *)
Theorem C17_combinations_state_machine : forall (A : Type) fuel (inner : list (option A)) i j l,
  (j <= length inner)%nat -> comb_run fuel inner i j = Ok l -> (i < length inner)%nat -> l = comb_spec inner i j.
Proof. exact (fun A => @comb_run_spec A). Qed.

(* Combinations::new over n live sets: every unordered pair (i < j) exactly once *)
Theorem C17_initial_pairs_each_once : forall (A : Type) (l : list A) ps,
  comb_new (map (@Some A) l) = Ok ps -> ps = all_pairs_of l.
Proof. exact (fun A => @comb_new_all_live A). Qed.

(* closest_clusters returns an entry of the matrix and no entry is strictly closer — for every
   comparison whose "not less than" is transitive (IEEE comparison on non-NaN distances) *)
Theorem C17_closest_is_minimum : forall (F : Type) (flt : F -> F -> bool),
  (forall a b c, flt b a = false -> flt c b = false -> flt c a = false) ->
  (forall a, flt a a = false) -> (forall a b, flt a b = true -> flt b a = false) ->
  forall m e, closest F flt m = Some e -> In e m /\ forall e', In e' m -> flt (snd e') (snd e) = false.
Proof. exact closest_is_minimum. Qed.

(* the leaf order accepted by the check is a permutation of 0..n-1 *)
Theorem C17_leaf_order_permutation : forall idx target, sortN idx = target -> Permutation idx target.
Proof. exact sorted_form_gives_permutation. Qed.

(* ---- soundness of the replay that spec_C17 runs on the crate's reported merges ---- *)

(* if the replay accepts a merge list it IS a dendrogram over the n inputs: one new node per merge
   (live + merges = inputs), every merge has lhs < rhs < n + k and the reported size is
   leaves(lhs) + leaves(rhs), recorded as the size of node n + k; live nodes and merged nodes are,
   together and WITHOUT REPETITION, exactly 0 .. n+|merges|-1 (every input and every intermediate
   cluster is merged at most once, only live nodes are unmerged); the leaves of the live nodes
   are the n inputs *)
Theorem C17_accepted_merges_form_a_dendrogram : forall mt table mode (sets : list (list N)) dm0 cs live dm sizes,
  replay mt table mode (Nlen sets) (numbered 0 sets, dm0, []) cs = Some (live, dm, sizes) ->
  let n := Nlen sets in
  (length live + length cs = length sets)%nat /\
  (forall k c, nth_error cs k = Some c ->
     lhs c < rhs c /\ rhs c < n + N.of_nat k /\ nth_error sizes k = Some (csize c) /\
     csize c = sz n (firstn k sizes) (lhs c) + sz n (firstn k sizes) (rhs c)) /\
  Permutation (map fst live ++ flat_map (fun c => [lhs c; rhs c]) cs) (ids_upto (length sets + length cs)) /\
  total n sizes (map fst live) = n.
Proof. exact replay_sound. Qed.

(* with a single node left (as spec_C17 demands): exactly n-1 merges and the last size is n *)
Theorem C17_single_root_means_n_minus_1_merges : forall mt table mode (sets : list (list N)) dm0 cs x cx dm sizes,
  replay mt table mode (Nlen sets) (numbered 0 sets, dm0, []) cs = Some ([(x, cx)], dm, sizes) ->
  (length cs + 1 = length sets)%nat /\ sz (Nlen sets) sizes x = Nlen sets.
Proof. exact replay_single_root. Qed.

Print Assumptions C17_combinations_state_machine.
Print Assumptions C17_initial_pairs_each_once.
Print Assumptions C17_closest_is_minimum.
Print Assumptions C17_leaf_order_permutation.
Print Assumptions C17_accepted_merges_form_a_dendrogram.
Print Assumptions C17_single_root_means_n_minus_1_merges.
