(* Properties/C17.v — hierarchical clustering returns a valid dendrogram built from closest pairs (C17).
   spec_C17 (Run/C17.v) replays the crate's reported merges against a reference state: n-1 merges,
   both nodes live, no live pair strictly closer, the reported distance, sizes adding up, the k-th
   merge becoming node n+k, distances to it following the method, one cluster of size n at the end,
   leaf order a permutation, initial callback pairs each exactly once.  The theorems below are about
   the Gallina transcription (Model/Linkage.v) and about the reference functions. *)
From Coq Require Import Permutation.
From HpoV Require Import Model.Base Model.Group Model.Linkage Run.C17 Proofs.C17P Proofs.C17R Proofs.LinkageP Proofs.DendroP Proofs.LinkageTotalP.

(* utils::Combinations, for EVERY fuel: what the iterator state machine yields from state
   (idx1, idx2) is the rest of row idx1 followed by all later rows, live entries only *)
Theorem C17_combinations_state_machine : forall (A : Type) fuel (inner : list (option A)) i j l,
  (j <= length inner)%nat -> comb_run fuel inner i j = Ok l -> (i < length inner)%nat -> l = comb_spec inner i j.
Proof. exact (fun A => @comb_run_spec A). Qed.

(* Combinations::new over n live sets: every unordered pair (i < j) exactly once *)
Theorem C17_initial_pairs_each_once : forall (A : Type) (l : list A) ps,
  comb_new (map (@Some A) l) = Ok ps -> ps = all_pairs_of l.
Proof. exact (fun A => @comb_new_all_live A). Qed.

(* closest_clusters returns an entry of the matrix and no entry is strictly closer — for every
   comparison whose "not less than" is transitive (IEEE comparison on non-NaN distances) *)
Theorem C17_closest_is_minimum : forall (F : Type) (flt : F -> F -> bool),
  (forall a b c, flt b a = false -> flt c b = false -> flt c a = false) ->
  (forall a, flt a a = false) -> (forall a b, flt a b = true -> flt b a = false) ->
  forall m e, closest F flt m = Some e -> In e m /\ forall e', In e' m -> flt (snd e') (snd e) = false.
Proof. exact closest_is_minimum. Qed.

(* the leaf order accepted by the check is a permutation of 0..n-1 *)
Theorem C17_leaf_order_permutation : forall idx target, sortN idx = target -> Permutation idx target.
Proof. exact sorted_form_gives_permutation. Qed.

(* ---- soundness of the replay that spec_C17 runs on the crate's reported merges ---- *)

(* if the replay accepts a merge list it IS a dendrogram over the n inputs: one new node per merge
   (live + merges = inputs), every merge has lhs < rhs < n + k and the reported size is
   leaves(lhs) + leaves(rhs), recorded as the size of node n + k; live nodes and merged nodes are,
   together and WITHOUT REPETITION, exactly 0 .. n+|merges|-1 (every input and every intermediate
   cluster is merged at most once, only live nodes are unmerged); the leaves of the live nodes
   are the n inputs *)
Theorem C17_accepted_merges_form_a_dendrogram : forall mt table mode (sets : list (list N)) dm0 cs live dm sizes,
  replay mt table mode (Nlen sets) (numbered 0 sets, dm0, []) cs = Some (live, dm, sizes) ->
  let n := Nlen sets in
  (length live + length cs = length sets)%nat /\
  (forall k c, nth_error cs k = Some c ->
     lhs c < rhs c /\ rhs c < n + N.of_nat k /\ nth_error sizes k = Some (csize c) /\
     csize c = sz n (firstn k sizes) (lhs c) + sz n (firstn k sizes) (rhs c)) /\
  Permutation (map fst live ++ flat_map (fun c => [lhs c; rhs c]) cs) (ids_upto (length sets + length cs)) /\
  total n sizes (map fst live) = n.
Proof. exact replay_sound. Qed.

(* with a single node left (as spec_C17 demands): exactly n-1 merges and the last size is n *)
Theorem C17_single_root_means_n_minus_1_merges : forall mt table mode (sets : list (list N)) dm0 cs x cx dm sizes,
  replay mt table mode (Nlen sets) (numbered 0 sets, dm0, []) cs = Some ([(x, cx)], dm, sizes) ->
  (length cs + 1 = length sets)%nat /\ sz (Nlen sets) sizes x = Nlen sets.
Proof. exact replay_single_root. Qed.

(* ---- the clustering loop itself (every number type, every distance function, all four methods) ---- *)

(* a successful run on n >= 1 sets is a sequence of merges [mrun]; every merge [merged] joins the
   entry closest_clusters returns for the matrix of THAT moment (a minimum of it:
   C17_closest_is_minimum), its two nodes are live and distinct, the reported size is the sum of the
   two sizes, the matrix holds at every moment exactly the pairs of live nodes [LI]; the run ends
   after exactly n-1 merges with one live node *)
Theorem C17_clustering_run : forall (F : Type) flt fgt mean dist mt sets sf, (1 <= length sets)%nat ->
  linkage F flt fgt mean dist mt sets = Ok sf ->
  exists s0, l_new F dist sets = Ok s0 /\ l_clusters F s0 = [] /\ mrun F flt s0 sf /\ LI F sf /\
    (length (l_clusters F sf) + 1 = length sets)%nat /\ nlive (l_sets F sf) = 1%nat.
Proof. exact linkage_run. Qed.

(* single / complete / average: the distance from every other live node to the new cluster is the
   method's combination (minimum / maximum / mean) of its distances to the two merged nodes, and all
   distances between other nodes are kept *)
Theorem C17_distances_follow_method : forall (F : Type) flt fgt mean mt (s s' : lstate F) i j d, LI F s ->
  arith_round F flt fgt mean mt s = Ok (Some s') -> closest F flt (l_dm F s) = Some (i, j, d) ->
  (forall idx, live (l_sets F s) idx -> idx <> i -> idx <> j ->
     exists v, arith F flt fgt mean mt (dm_get F (pair_key idx i) (l_dm F s)) (dm_get F (pair_key idx j) (l_dm F s)) = Ok v /\
               dm_get F (idx, length (l_sets F s)) (l_dm F s') = Some v) /\
  (forall a b, a <> i -> a <> j -> b <> i -> b <> j -> b <> length (l_sets F s) ->
     dm_get F (a, b) (l_dm F s') = dm_get F (a, b) (l_dm F s)).
Proof. exact arith_round_distances. Qed.

(* union: the new cluster's set is the union (HpoSet::extend) of the two merged sets, the distance
   from every other live node to it is the user's distance between that union and the node's set,
   and all distances between other nodes are kept *)
Theorem C17_union_distances : forall (F : Type) flt dist (s s' : lstate F) i j d gi gj, LI F s ->
  union_round F flt dist s = Ok (Some s') -> closest F flt (l_dm F s) = Some (i, j, d) ->
  nth_error (l_sets F s) i = Some (Some gi) -> nth_error (l_sets F s) j = Some (Some gj) ->
  (forall idx g, nth_error (l_sets F s) idx = Some (Some g) -> idx <> i -> idx <> j ->
     dm_get F (idx, length (l_sets F s)) (l_dm F s') = Some (dist (set_extend gi gj) g)) /\
  (forall a b, a <> i -> a <> j -> b <> i -> b <> j -> b <> length (l_sets F s) ->
     dm_get F (a, b) (l_dm F s') = dm_get F (a, b) (l_dm F s)) /\
  nth_error (l_sets F s') (length (l_sets F s)) = Some (Some (set_extend gi gj)).
Proof. exact union_round_distances. Qed.

(* the matrix a run starts from holds the user's distance of every pair of input sets *)
Theorem C17_initial_matrix : forall (F : Type) (dist : group -> group -> F) sets s0, l_new F dist sets = Ok s0 ->
  forall a b ga gb, (a < b)%nat -> nth_error sets a = Some ga -> nth_error sets b = Some gb ->
  dm_get F (a, b) (l_dm F s0) = Some (dist ga gb).
Proof. exact l_new_distances. Qed.

(* THE RUN RETURNS A DENDROGRAM (every number type, distance function, method; n >= 1 inputs):
   n-1 merges; merge k (node n+k) has lhs < rhs < n+k and its size is the sum of the sizes of its
   parts; every node 0 .. 2n-3 occurs exactly once as lhs or rhs (each input and each intermediate
   cluster is merged exactly once, the last node never); for n >= 2 the last merge has size n and
   Linkage::indicies is a permutation of 0 .. n-1 *)
Theorem C17_run_returns_a_dendrogram : forall (F : Type) flt fgt mean dist mt sets sf, (1 <= length sets)%nat ->
  linkage F flt fgt mean dist mt sets = Ok sf ->
  let n := length sets in let cl := l_clusters F sf in
  (length cl + 1 = n)%nat /\
  (forall k c, nth_error cl k = Some c ->
     (c_lhs F c < c_rhs F c)%nat /\ (c_rhs F c < n + k)%nat /\
     c_size F c = (szf F n (firstn k cl) (c_lhs F c) + szf F n (firstn k cl) (c_rhs F c))%nat) /\
  Permutation (used F cl) (seq 0 (2 * n - 2)) /\
  ((2 <= n)%nat -> (exists c, nth_error cl (n - 2) = Some c /\ c_size F c = n) /\ Permutation (indicies F sf) (seq 0 n)).
Proof. exact linkage_dendrogram. Qed.

(* TOTALITY: all four linkage methods RETURN on every non-empty list of sets, for every number type and
   distance function — the sizes of merged nodes are known, indices are in range, every distance a
   method combines is present, the callback's values suffice, the Combinations iterator ends within
   its fuel (none of the expect() calls of linkage.rs panics).  With C17_clustering_run and
   C17_run_returns_a_dendrogram: clustering n >= 1 sets YIELDS exactly n-1 merges forming a dendrogram *)
Theorem C17_clustering_returns : forall (F : Type) flt fgt mean dist mt sets, (1 <= length sets)%nat ->
  exists sf, linkage F flt fgt mean dist mt sets = Ok sf.
Proof. exact linkage_returns. Qed.

Print Assumptions C17_combinations_state_machine.
Print Assumptions C17_initial_pairs_each_once.
Print Assumptions C17_closest_is_minimum.
Print Assumptions C17_leaf_order_permutation.
Print Assumptions C17_accepted_merges_form_a_dendrogram.
Print Assumptions C17_single_root_means_n_minus_1_merges.
Print Assumptions C17_clustering_run.
Print Assumptions C17_distances_follow_method.
Print Assumptions C17_union_distances.
Print Assumptions C17_initial_matrix.
Print Assumptions C17_run_returns_a_dendrogram.
Print Assumptions C17_clustering_returns.
