(* Properties/C17.v — hierarchical clustering returns a valid dendrogram built from closest pairs (C17).
   spec_C17 (Run/C17.v) replays the crate's reported merges against a reference state: n-1 merges,
   both nodes live, no live pair strictly closer, the reported distance, sizes adding up, the k-th
   merge becoming node n+k, distances to it following the method, one cluster of size n at the end,
   leaf order a permutation, initial callback pairs each exactly once.  The theorems below are about
   the Gallina transcription (Model/Linkage.v) and about the reference functions. *)
From Coq Require Import Permutation.
From HpoV Require Import Model.Base Model.Group Model.Linkage Proofs.C17P.

(* utils::Combinations, for EVERY fuel: what the iterator state machine yields from state
   (idx1, idx2) is the rest of row idx1 followed by all later rows, live entries only *)
Theorem C17_combinations_state_machine : forall (A : Type) fuel (inner : list (option A)) i j l,
  (j <= length inner)%nat -> comb_run fuel inner i j = Ok l -> (i < length inner)%nat -> l = comb_spec inner i j.
Proof. exact (fun A => @comb_run_spec A). Qed.

(* Combinations::new over n live sets: every unordered pair (i < j) exactly once *)
Theorem C17_initial_pairs_each_once : forall (A : Type) (l : list A) ps,
  comb_new (map (@Some A) l) = Ok ps -> ps = all_pairs_of l.
Proof. exact (fun A => @comb_new_all_live A). Qed.

(* closest_clusters returns an entry of the matrix and no entry is strictly closer — for every
   comparison whose "not less than" is transitive (IEEE comparison on non-NaN distances) *)
Theorem C17_closest_is_minimum : forall (F : Type) (flt : F -> F -> bool),
  (forall a b c, flt b a = false -> flt c b = false -> flt c a = false) ->
  (forall a, flt a a = false) -> (forall a b, flt a b = true -> flt b a = false) ->
  forall m e, closest F flt m = Some e -> In e m /\ forall e', In e' m -> flt (snd e') (snd e) = false.
Proof. exact closest_is_minimum. Qed.

(* the leaf order accepted by the check is a permutation of 0..n-1 *)
Theorem C17_leaf_order_permutation : forall idx target, sortN idx = target -> Permutation idx target.
Proof. exact sorted_form_gives_permutation. Qed.

Print Assumptions C17_combinations_state_machine.
Print Assumptions C17_initial_pairs_each_once.
Print Assumptions C17_closest_is_minimum.
Print Assumptions C17_leaf_order_permutation.
