(* Properties/C19.v — default categories and modifiers (C19) *)
From Coq Require Import Sorted.
From HpoV Require Import Gen.Consts Model.Base Model.Group Model.Onto Model.Query Model.Script Proofs.ClosureP Proofs.DistP Proofs.C19P Proofs.C19B Run.World Run.C19 Proofs.GroupP Proofs.C19S Proofs.C19D.

(* ROOT_ID, ROOT_ID_CAT and PHENOTYPE_ID are regenerated from /repo's source on every run
   (Gen/Consts.v); the statements below are re-checked against the current values. *)

Theorem C19_default_modifier : forall o o', set_default_modifier o = Ok o' ->
  exists root, o_get ROOT_ID o = Some root /\ StronglySorted N.lt (o_mod o') /\
    forall r, In r (o_mod o') <-> In r (t_children root) /\ r <> PHENOTYPE_ID.
Proof. exact default_modifier_spec. Qed.

Theorem C19_default_categories : forall o o', set_default_categories o = Ok o' ->
  exists root ph, o_get ROOT_ID_CAT o = Some root /\ o_get PHENOTYPE_ID o = Some ph /\
    StronglySorted N.lt (o_cat o') /\
    forall c, In c (o_cat o') <-> (In c (t_children root) /\ c <> PHENOTYPE_ID) \/ In c (t_children ph).
Proof. exact default_categories_spec. Qed.

Theorem C19_is_modifier : forall o t, StronglySorted N.lt (t_allp t) ->
  (is_modifier o t = true <-> exists r, In r (o_mod o) /\ (r = t_id t \/ In r (t_allp t))).
Proof. exact is_modifier_spec. Qed.

Theorem C19_categories : forall o t, StronglySorted N.lt (t_allp t) -> forall c,
  In c (categories o t) <-> In c (o_cat o) /\ (c = t_id t \/ In c (t_allp t)).
Proof. exact categories_spec. Qed.

Theorem C19_categories_ascending : forall o t, StronglySorted N.lt (o_cat o) ->
  StronglySorted N.lt (categories o t).
Proof. exact categories_sorted. Qed.

Theorem C19_error_iff_root_missing : forall o, (exists e, b_build_with_defaults o = Err e) <->
  (o_get ROOT_ID o = None \/ o_get PHENOTYPE_ID o = None).
Proof. exact defaults_error. Qed.

(* the documented root ids *)
Theorem C19_root_ids : ROOT_ID = 1 /\ ROOT_ID_CAT = 1 /\ PHENOTYPE_ID = 118.
Proof. exact (conj eq_refl (conj eq_refl eq_refl)). Qed.

(* "descends from" is the real is_a relation: in every Builder-built ontology (exact ancestor caches)
   a term is a modifier iff it is a modifier root or has one among its ancestors in the transitive
   closure of the is_a links; its categories are the category terms it equals or descends from *)
Theorem C19_builder_is_modifier : forall icf s codes o t, run_script icf s = Ok (codes, Ok o) -> In t (ar_terms (o_arena o)) ->
  (is_modifier o t = true <-> exists r, In r (o_mod o) /\ (r = t_id t \/ anc (o_arena o) (t_id t) r)).
Proof. exact builder_is_modifier. Qed.

Theorem C19_builder_categories : forall icf s codes o t, run_script icf s = Ok (codes, Ok o) -> In t (ar_terms (o_arena o)) ->
  forall c, In c (categories o t) <-> In c (o_cat o) /\ (c = t_id t \/ anc (o_arena o) (t_id t) c).
Proof. exact builder_categories. Qed.

(* the same for EVERY ontology with exact ancestor caches — JAX loads, sub-ontologies and accepted
   binary files are such (C09 / C14 / C08 theorems) *)
Theorem C19_is_modifier_exact_caches : forall o t, qgood o -> In t (ar_terms (o_arena o)) ->
  (is_modifier o t = true <-> exists r, In r (o_mod o) /\ (r = t_id t \/ anc (o_arena o) (t_id t) r)).
Proof. exact qgood_is_modifier. Qed.

Theorem C19_categories_exact_caches : forall o t, qgood o -> In t (ar_terms (o_arena o)) ->
  forall c, In c (categories o t) <-> In c (o_cat o) /\ (c = t_id t \/ anc (o_arena o) (t_id t) c).
Proof. exact qgood_categories. Qed.

(* SOUNDNESS OF THE EXECUTABLE STATEMENT: what an observation accepted by defaults_ok (spec_C19) says *)
Theorem C19_accepted_observation_means : forall ts cat mo, defaults_ok ts cat mo = true ->
  exists root ph, sfind 1 ts = Some root /\ sfind 118 ts = Some ph /\
    (forall x, In x mo <-> In x (s_children root) /\ x <> 118) /\
    (forall x, In x cat <-> (In x (s_children root) /\ x <> 118) \/ In x (s_children ph)) /\
    forall t, In t ts ->
      (s_ismod t = 1 <-> exists r, In r mo /\ (r = s_id t \/ In r (s_allp t))) /\
      (s_ismod t = 0 \/ s_ismod t = 1) /\
      sorted (s_cats t) /\
      (forall c, In c (s_cats t) <-> In c cat /\ (c = s_id t \/ In c (s_allp t))).
Proof. exact defaults_ok_sound. Qed.

(* THE PUBLIC SETTERS REPLACE: set_default_categories then set_default_modifier, called on two ontologies with
   the same terms — whatever category / modifier groups each carried before (categories_mut / modifier_mut) —
   end in the same groups (or the same error); and on an ontology that carries the defaults they change nothing *)
Theorem C19_setters_replace_previous_groups : forall o o', o_arena o = o_arena o' ->
  match set_defaults o, set_defaults o' with
  | Ok a, Ok b => o_cat a = o_cat b /\ o_mod a = o_mod b /\ o_arena a = o_arena o /\ o_arena b = o_arena o'
  | Err e, Err e' => e = e'
  | _, _ => False
  end.
Proof. exact defaults_ignore_previous_groups. Qed.

Theorem C19_setters_idempotent : forall o a, set_defaults o = Ok a -> set_defaults a = Ok a.
Proof. exact defaults_idempotent. Qed.

Print Assumptions C19_default_modifier.
Print Assumptions C19_default_categories.
Print Assumptions C19_is_modifier.
Print Assumptions C19_categories.
Print Assumptions C19_categories_ascending.
Print Assumptions C19_error_iff_root_missing.
Print Assumptions C19_root_ids.
Print Assumptions C19_builder_is_modifier.
Print Assumptions C19_builder_categories.
Print Assumptions C19_is_modifier_exact_caches.
Print Assumptions C19_categories_exact_caches.
Print Assumptions C19_accepted_observation_means.
Print Assumptions C19_setters_replace_previous_groups.
Print Assumptions C19_setters_idempotent.
