(* Properties/C20.v — term-id text and byte conversions are total and mutually inverse (C20) *)
From HpoV Require Import Gen.Consts Model.Base Model.Binary Model.TermId Run.C20 Proofs.C20M Proofs.C20P.

(* for EVERY unsigned 32-bit id (not only the 10^7 ids of the id space): parsing the rendering
   returns the id.  By induction over the digits, not by enumeration. *)
Theorem C20_parse_show : forall n, n <= U32_MAX -> parse_id (show n) = Ok n.
Proof. exact parse_show. Qed.

Theorem C20_be_bytes_roundtrip : forall n, n <= U32_MAX -> id_of_be (id_to_be n) = Some n.
Proof. exact be_bytes_roundtrip. Qed.

Theorem C20_show_shape : forall n, exists ds, show n = [72; 80; 58] ++ ds /\ (7 <= length ds)%nat /\
  Forall (fun d => 48 <= d <= 57) ds.
Proof. exact show_shape. Qed.

Theorem C20_parse_total : forall s, parse_id s <> Panic /\ parse_id s <> Fuel.
Proof. exact parse_total. Qed.

(* EXACTLY WHAT IS ACCEPTED: Ok n iff the text has at least the minimal length, byte 3 is a character
   boundary and the rest is an optional '+' followed by a non-empty string of ASCII digits whose
   decimal value is n <= u32::MAX (core's u32::from_str); every other text is Err(ParseIntError) *)
Theorem C20_parse_accepts_exactly : forall s n, parse_id s = Ok n <->
  ID_MIN_LEN <= Nlen s /\ is_char_boundary s ID_PREFIX_LEN = true /\
  exists ds, ds <> [] /\ Forall is_digit ds /\ n = dval ds 0 /\ n <= U32_MAX /\
    (skipn (N.to_nat ID_PREFIX_LEN) s = ds \/ skipn (N.to_nat ID_PREFIX_LEN) s = 43 :: ds).
Proof. exact parse_id_spec. Qed.

Theorem C20_parse_error_kind : forall s, (exists n, parse_id s = Ok n) \/ parse_id s = Err ParseIntError.
Proof. exact parse_id_error_kind. Qed.

(* THE RENDERING, EXACTLY: "HP:" and the decimal digits of the number - exactly seven of them, zero padded,
   for every id of the id space; no leading zero beyond it *)
Theorem C20_show_is_padded_decimal : forall n, n <= U32_MAX -> exists ds,
  show n = [72; 80; 58] ++ ds /\ Forall is_digit ds /\ dval ds 0 = n /\
  (n < 10000000 -> length ds = 7%nat) /\
  (10000000 <= n -> exists d t, ds = d :: t /\ d <> 48).
Proof. exact show_padded_decimal. Qed.

(* THE TRANSCRIPTION MEETS THE EXECUTABLE STATEMENT ON EVERY INPUT: what the check evaluates on the crate's
   observation of the generated cases holds of the model for all ids below 2^32 and all texts; and the
   statement's own reading of "an unsigned 32-bit decimal number after the three-byte prefix" (expected_parse,
   written without the model's parser) is what the transcription computes *)
Theorem C20_model_meets_statement : forall k ids texts, Forall (fun n => n <= U32_MAX) ids ->
  spec_C20 (k, ids, texts) (run_C20 (k, ids, texts)) = true.
Proof. exact spec_C20_model. Qed.

Theorem C20_statement_parser_is_transcription : forall s, expected_parse s = encR (parse_id s).
Proof. exact expected_parse_is_parse_id. Qed.

Print Assumptions C20_parse_show.
Print Assumptions C20_be_bytes_roundtrip.
Print Assumptions C20_show_shape.
Print Assumptions C20_parse_total.
Print Assumptions C20_parse_accepts_exactly.
Print Assumptions C20_parse_error_kind.
Print Assumptions C20_show_is_padded_decimal.
Print Assumptions C20_model_meets_statement.
Print Assumptions C20_statement_parser_is_transcription.
