(* Properties/C20.v — term-id text and byte conversions are total and mutually inverse (C20) *)
From HpoV Require Import Gen.Consts Model.Base Model.Binary Model.TermId Proofs.C20P.

(* for EVERY unsigned 32-bit id (not only the 10^7 ids of the id space): parsing the rendering
   returns the id.  By induction over the digits, not by enumeration. *)
Theorem C20_parse_show : forall n, n <= U32_MAX -> parse_id (show n) = Ok n.
Proof. exact parse_show. Qed.

Theorem C20_be_bytes_roundtrip : forall n, n <= U32_MAX -> id_of_be (id_to_be n) = Some n.
Proof. exact be_bytes_roundtrip. Qed.

Theorem C20_show_shape : forall n, exists ds, show n = [72; 80; 58] ++ ds /\ (7 <= length ds)%nat /\
  Forall (fun d => 48 <= d <= 57) ds.
Proof. exact show_shape. Qed.

Theorem C20_parse_total : forall s, parse_id s <> Panic /\ parse_id s <> Fuel.
Proof. exact parse_total. Qed.

Print Assumptions C20_parse_show.
Print Assumptions C20_be_bytes_roundtrip.
Print Assumptions C20_show_shape.
Print Assumptions C20_parse_total.
