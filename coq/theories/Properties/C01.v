(* Properties/C01.v — ancestor sets are the exact transitive closure (C01).
   Only statements; every proof is `exact <lemma>`. *)
From Coq Require Import Relations.
From HpoV Require Import Gen.Consts Model.Base Model.Group Model.Onto Run.World Run.C01 Proofs.C01P Proofs.ClosureP Proofs.AcyclicP Proofs.DistP Proofs.QgoodP Model.Script Proofs.RoundTripP Proofs.AllPathsP Proofs.TotalP Model.Binary Model.TermId Model.Render Proofs.RenderP.

(* An observation of an ontology (per term: id, parents, children, all ancestors, as the read
   API reports them) that passes the executable statement [closure_ok] — which the check
   evaluates on the real crate's observation of every generated ontology — reports for every
   term exactly the transitive closure of the reported parent relation: *)
Theorem C01_closure_exact : forall ts, closure_ok ts = true -> forall t, In t ts ->
  forall a, In a (p_allp t) <-> clos_trans N (prel ts) (p_id t) a.
Proof. exact closure_ok_sound. Qed.

(* never the term itself (hence the reported relation is acyclic) *)
Theorem C01_never_self : forall ts, closure_ok ts = true -> forall t, In t ts ->
  ~ clos_trans N (prel ts) (p_id t) (p_id t).
Proof. exact closure_ok_irreflexive. Qed.

(* the child relation is the exact inverse of the parent relation *)
Theorem C01_children_inverse : forall ts, closure_ok ts = true -> forall tp tc, In tp ts -> In tc ts ->
  (In (p_id tc) (p_children tp) <-> In (p_id tp) (p_parents tc)).
Proof. exact children_inverse. Qed.

(* child_of / parent_of: the observed matrix equals membership in the ancestor sets *)
Theorem C01_matrix_is_membership : forall m ts, matrix_eqb m (matrix_ref ts) = true -> m = matrix_ref ts.
Proof. exact (fun m ts => matrix_eqb_eq m (matrix_ref ts)). Qed.

(* ---- about the Gallina transcription of builder.rs (Model/Onto.v), for EVERY arena ---- *)

(* connect_all_terms / create_cache_of_grandparents / all_grandparents: whenever the (fuelled)
   recursion returns — every fuel, every insertion order, every id assignment, any DAG shape —
   names, parents, children and flags are untouched and every term's cache is EXACTLY the
   transitive closure of the direct-parent relation.  The memoisation heuristic
   (parents_cached) is sound because a term with parents has a non-empty closure. *)
Theorem C01_model_cache_is_transitive_closure : forall fuel a a',
  wf_ar a -> (forall t, In t (ar_terms a) -> t_allp t = []) -> connect_all fuel a = Ok a' ->
  same_but_allp a a' /\
  forall t', In t' (ar_terms a') -> forall x, In x (t_allp t') <-> clos_trans N (parent_rel a) (t_id t') x.
Proof. exact connect_all_exact. Qed.

(* one call of create_cache_of_grandparents, under the invariant "every cache is empty or exact" *)
Theorem C01_model_create_cache : forall fuel a id a', wf_ar a -> Inv a -> In id (ar_keys a) ->
  create_cache fuel a id = Ok a' ->
  step a a' /\ (forall t', In t' (ar_terms a') -> t_id t' = id -> exact a' t').
Proof. exact create_cache_spec. Qed.

(* never the term itself, on every graph that admits a rank function (acyclic) *)
Theorem C01_model_never_self : forall a, ranked a -> forall c, ~ clos_trans N (parent_rel a) c c.
Proof. exact ranked_irreflexive. Qed.

(* the arenas the Builder produces satisfy the hypotheses: Arena::insert and every successful
   add_parent keep ids unique and in range, links resolving, caches empty and children the exact
   inverse of parents; a successful add_parent adds exactly that one link *)
Theorem C01_model_builder_insert : forall a t a', binv a -> t_parents t = [] -> t_children t = [] -> t_allp t = [] ->
  ar_insert t a = Ok a' -> binv a'.
Proof. exact binv_insert. Qed.
Theorem C01_model_builder_add_parent : forall o parent child o', binv (o_arena o) -> b_add_parent parent child o = Ok o' ->
  binv (o_arena o') /\
  (forall c p, parent_rel (o_arena o') c p <-> parent_rel (o_arena o) c p \/ (c = child /\ p = parent)).
Proof. exact binv_add_parent. Qed.
Theorem C01_model_children_inverse : forall a, binv a -> forall c p, parent_rel a c p <-> child_rel a p c.
Proof. exact b_inverse. Qed.

(* connect_all_terms RETURNS ONLY ON ACYCLIC GRAPHS: whenever the fuelled transcription of the
   recursion returns (the real recursion: terminates), for whatever fuel, no term is its own
   ancestor — so the "irreflexive" half of the property needs no assumption on the input *)
Theorem C01_connect_returns_only_on_acyclic_graphs : forall fuel a a', binv a ->
  connect_all fuel a = Ok a' -> acyclic a /\ acyclic a'.
Proof. exact connect_all_acyclic. Qed.

(* every ontology a Builder script produces: unique ids in range, resolving links, sorted groups,
   and EVERY ancestor cache exactly the transitive closure of the direct-parent relation *)
Theorem C01_builder_ontologies_exact : forall icf s codes o, run_script icf s = Ok (codes, Ok o) -> qgood o.
Proof. exact run_script_qgood. Qed.

(* EACH CONSTRUCTION PATH: whatever public constructor produced the ontology — the Builder API, the JAX
   text loaders (closed hp.obo), from_bytes on a well-formed file, sub_ontology of any such ontology,
   nested to any depth ([constructed], Proofs/AllPathsP.v) — every ancestor cache is exactly the
   transitive closure, children are the inverse of parents, and the graph is acyclic *)
Theorem C01_every_constructed_ontology : forall icf o, constructed icf o -> src_ok o /\ acyclic (o_arena o).
Proof. exact constructed_structure. Qed.

(* ---- the two renderings of the structure (Ontology::as_mermaid / as_graphviz, Model/Render.v; sub-check C01r) ---- *)

(* the edges drawn are exactly the parent-child links *)
Theorem C01_rendered_edges_are_the_links : forall o, src_ok o -> forall p c,
  In (p, c) (edge_pairs o) <-> parent_rel (o_arena o) c p.
Proof. exact edge_pairs_are_the_links. Qed.

(* as_mermaid returns, and its text is the header followed, term by term in iteration order, by the
   node label and one edge line per child in ascending id order *)
Theorem C01_mermaid_text : forall o, src_ok o ->
  mermaid o = Ok (s_graph_td ++ concat (map (fun t => mermaid_node t ++
                     concat (map (fun c => show (t_id t) ++ s_arrow ++ show c ++ [NLr]) (t_children t))) (ar_terms (o_arena o)))).
Proof. exact mermaid_text. Qed.

Theorem C01_graphviz_returns : forall layout o, src_ok o -> exists txt, graphviz layout o = Ok txt.
Proof. exact graphviz_returns. Qed.

(* TOTALITY: connect_all_terms RETURNS on every graph that has a rank function decreasing along parent
   links and staying below the fuel (it does not run out of fuel, does not panic) — with
   C01_connect_returns_only_on_acyclic_graphs: it returns exactly on acyclic graphs; the "whenever it
   returns" theorems above are not vacuous, whatever the size of the graph *)
Theorem C01_connect_returns_on_ranked_graphs : forall (r : N -> nat) fuel a, wf_ar a ->
  (forall t, In t (ar_terms a) -> t_allp t = []) -> ranked_by r a ->
  (forall id, In id (ar_keys a) -> (r id < fuel)%nat) -> exists a', connect_all fuel a = Ok a'.
Proof. exact connect_all_total. Qed.

(* CONNECT_ALL_TERMS RETURNS EXACTLY ON ACYCLIC GRAPHS (the Builder invariant [binv] holds of every arena the
   Builder API produces before connect_all_terms): with the fuel the code path uses it neither runs
   out of fuel nor panics on an acyclic graph — running out of fuel would exhibit a chain of parent
   links longer than the number of terms, i.e. a cycle — and on a cyclic one it does not return *)
Theorem C01_connect_returns_iff_acyclic : forall a, binv a ->
  ((exists a', connect_all (default_fuel a) a = Ok a') <-> acyclic a).
Proof. exact connect_all_returns_iff_acyclic. Qed.

Print Assumptions C01_closure_exact.
Print Assumptions C01_model_cache_is_transitive_closure.
Print Assumptions C01_model_create_cache.
Print Assumptions C01_model_never_self.
Print Assumptions C01_model_builder_insert.
Print Assumptions C01_model_builder_add_parent.
Print Assumptions C01_model_children_inverse.
Print Assumptions C01_never_self.
Print Assumptions C01_children_inverse.
Print Assumptions C01_matrix_is_membership.
Print Assumptions C01_connect_returns_only_on_acyclic_graphs.
Print Assumptions C01_builder_ontologies_exact.
Print Assumptions C01_every_constructed_ontology.
Print Assumptions C01_rendered_edges_are_the_links.
Print Assumptions C01_mermaid_text.
Print Assumptions C01_graphviz_returns.
Print Assumptions C01_connect_returns_on_ranked_graphs.
Print Assumptions C01_connect_returns_iff_acyclic.
