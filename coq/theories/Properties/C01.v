(* Properties/C01.v — ancestor sets are the exact transitive closure (C01).
   Only statements; every proof is `exact <lemma>`. *)
From Coq Require Import Relations.
From HpoV Require Import Model.Base Run.World Run.C01 Proofs.C01P.

(* An observation of an ontology (per term: id, parents, children, all ancestors, as the read
   API reports them) that passes the executable statement [closure_ok] — which the check
   evaluates on the real crate's observation of every generated ontology — reports for every
   term exactly the transitive closure of the reported parent relation: *)
Theorem C01_closure_exact : forall ts, closure_ok ts = true -> forall t, In t ts ->
  forall a, In a (p_allp t) <-> clos_trans N (prel ts) (p_id t) a.
Proof. exact closure_ok_sound. Qed.

(* never the term itself (hence the reported relation is acyclic) *)
Theorem C01_never_self : forall ts, closure_ok ts = true -> forall t, In t ts ->
  ~ clos_trans N (prel ts) (p_id t) (p_id t).
Proof. exact closure_ok_irreflexive. Qed.

(* the child relation is the exact inverse of the parent relation *)
Theorem C01_children_inverse : forall ts, closure_ok ts = true -> forall tp tc, In tp ts -> In tc ts ->
  (In (p_id tc) (p_children tp) <-> In (p_id tp) (p_parents tc)).
Proof. exact children_inverse. Qed.

(* child_of / parent_of: the observed matrix equals membership in the ancestor sets *)
Theorem C01_matrix_is_membership : forall m ts, matrix_eqb m (matrix_ref ts) = true -> m = matrix_ref ts.
Proof. exact (fun m ts => matrix_eqb_eq m (matrix_ref ts)). Qed.

Print Assumptions C01_closure_exact.
Print Assumptions C01_never_self.
Print Assumptions C01_children_inverse.
Print Assumptions C01_matrix_is_membership.
