(* Properties/C04.v — built-in term similarities (C04).
   spec_C04 (Run/C04.v) recomputes every score from the observation (ancestor sets, information
   contents, shortest distances, annotation sets as the read API reports them) by the documented
   formula in binary32 arithmetic, and demands bit equality, symmetry, finiteness, >= 0 and the
   documented special cases on the crate's values.  The theorems below are about the Gallina
   transcription of src/similarity/defaults.rs, in EVERY number structure. Over the REALS (exact arithmetic,
   information content -ln(n/N)) every score is >= 0 and every division is by a positive number, in
   every ontology a Builder script builds (C04_exact_scores_nonnegative, C04_builder_scores_nonnegative).
   PARTIAL: finiteness of the binary32 results is not a theorem (no rounding / overflow analysis);
   `expf` is an oracle; the binary32 evaluation is executed bit for bit by the correspondence run. *)
From Coq Require Import Sorted Reals.
From HpoV Require Import Gen.Consts Model.Base Model.Group Model.Onto Model.Query Model.Similarity Model.Script Proofs.DistP Proofs.AnnotP Proofs.C04P Proofs.C04R Proofs.C04B Proofs.AllPathsP Proofs.AcyclicP Proofs.C04T.

Theorem C04_self_is_one : forall F fadd fsub fmul fdiv fgt fis0 fzero fnzero fone ftwo fmone f_of_u16 fexp ic o k a b,
  t_id a = t_id b ->
  similarity F fadd fsub fmul fdiv fgt fis0 fzero fnzero fone ftwo fmone f_of_u16 fexp ic AGraphIc o k a b = Ok fone /\
  similarity F fadd fsub fmul fdiv fgt fis0 fzero fnzero fone ftwo fmone f_of_u16 fexp ic AJc o k a b = Ok fone /\
  similarity F fadd fsub fmul fdiv fgt fis0 fzero fnzero fone ftwo fmone f_of_u16 fexp ic AMutation o k a b = Ok fone.
Proof. exact self_is_one. Qed.

Theorem C04_mutation_unannotated_zero : forall F fadd fsub fmul fdiv fgt fis0 fzero fnzero fone ftwo fmone f_of_u16 fexp ic o k a b,
  t_id a <> t_id b -> t_annots k a = [] -> t_annots k b = [] ->
  similarity F fadd fsub fmul fdiv fgt fis0 fzero fnzero fone ftwo fmone f_of_u16 fexp ic AMutation o k a b = Ok fzero.
Proof. exact mutation_unannotated_zero. Qed.

Theorem C04_distance_ignores_kind : forall F fadd fsub fmul fdiv fgt fis0 fzero fnzero fone ftwo fmone f_of_u16 fexp ic o k k' a b,
  similarity F fadd fsub fmul fdiv fgt fis0 fzero fnzero fone ftwo fmone f_of_u16 fexp ic ADistance o k a b
  = similarity F fadd fsub fmul fdiv fgt fis0 fzero fnzero fone ftwo fmone f_of_u16 fexp ic ADistance o k' a b.
Proof. exact distance_ignores_kind. Qed.

Theorem C04_lin_zero_denominator_guard : forall F fadd fsub fmul fdiv fgt fis0 fzero fnzero fone ftwo fmone f_of_u16 fexp ic o k a b,
  fis0 (fadd (ic k a) (ic k b)) = true ->
  similarity F fadd fsub fmul fdiv fgt fis0 fzero fnzero fone ftwo fmone f_of_u16 fexp ic ALin o k a b = Ok fzero.
Proof. exact lin_guard. Qed.

Theorem C04_jc_zero_guard : forall F fadd fsub fmul fdiv fgt fis0 fzero fnzero fone ftwo fmone f_of_u16 fexp ic o k a b,
  t_id a <> t_id b -> fis0 (ic k a) = true \/ fis0 (ic k b) = true ->
  similarity F fadd fsub fmul fdiv fgt fis0 fzero fnzero fone ftwo fmone f_of_u16 fexp ic AJc o k a b = Ok fzero.
Proof. exact jc_guard. Qed.

Theorem C04_resnik_is_zero_or_an_ancestor_ic : forall F fadd fsub fmul fdiv fgt fis0 fzero fnzero fone ftwo fmone f_of_u16 fexp ic o k a b r,
  similarity F fadd fsub fmul fdiv fgt fis0 fzero fnzero fone ftwo fmone f_of_u16 fexp ic AResnik o k a b = Ok r ->
  r = fzero \/ exists cs t, resolve_all o (all_common_ancestor_ids a b) = Ok cs /\ In t cs /\ r = ic k t.
Proof. exact resnik_is_zero_or_an_ancestor_ic. Qed.

(* THE SCORE DOES NOT DEPEND ON THE ARGUMENT ORDER: for all 8 algorithms and 3 kinds, in every number
   structure with commutative addition (IEEE-754 addition is), for every ontology whose ancestor
   caches and annotation sets are ascending groups — whenever a score is returned, the swapped call
   returns the same score.  Rests on: union / intersection of sorted groups are equal LISTS in
   either order (C12), so every sum folds over the same sequence. *)
Theorem C04_symmetric : forall F fadd fsub fmul fdiv fgt fis0 fzero fnzero fone ftwo fmone f_of_u16 fexp ic,
  (forall x y, fadd x y = fadd y x) ->
  forall o k a b, StronglySorted N.lt (t_allp a) -> StronglySorted N.lt (t_allp b) ->
    StronglySorted N.lt (t_annots k a) -> StronglySorted N.lt (t_annots k b) ->
    forall g r,
      similarity F fadd fsub fmul fdiv fgt fis0 fzero fnzero fone ftwo fmone f_of_u16 fexp ic g o k a b = Ok r ->
      similarity F fadd fsub fmul fdiv fgt fis0 fzero fnzero fone ftwo fmone f_of_u16 fexp ic g o k b a = Ok r.
Proof. exact similarity_symmetric. Qed.

(* EXACT ARITHMETIC: over the reals, with information contents >= 0 on the ontology's terms and (when
   neither term's is 0) no common ancestor more informative than either term, every score returned
   is >= 0 — under the code's own guards no denominator is 0 or negative *)
Theorem C04_exact_scores_nonnegative : forall (ic : kind -> term -> R) (T : term -> Prop),
  (forall k t, T t -> (0 <= ic k t)%R) ->
  forall o, (forall g ts, resolve_all o g = Ok ts -> Forall T ts) ->
  forall g k a b r, T a -> T b ->
    (ic k a <> 0%R -> ic k b <> 0%R ->
     forall cs, resolve_all o (all_common_ancestor_ids a b) = Ok cs -> forall c, In c cs -> (ic k c <= ic k a)%R /\ (ic k c <= ic k b)%R) ->
    simR ic g o k a b = Ok r -> (0 <= r)%R.
Proof. exact similarity_nonneg. Qed.

(* ... and these hypotheses hold in every ontology a Builder script builds, for the documented
   information content -ln(n/N) of the inherited annotation sets *)
Theorem C04_builder_scores_nonnegative : forall icf s codes o, run_script icf s = Ok (codes, Ok o) ->
  forall g k ta tb r, In ta (ar_terms (o_arena o)) -> In tb (ar_terms (o_arena o)) ->
    simR (icRo o) g o k ta tb = Ok r -> (0 <= r)%R.
Proof. exact builder_similarity_nonneg. Qed.

(* ... and in every [constructed] ontology (Proofs/AllPathsP.v: every public construction path) *)
Theorem C04_constructed_scores_nonnegative : forall icf o, constructed icf o ->
  forall g k ta tb r, In ta (ar_terms (o_arena o)) -> In tb (ar_terms (o_arena o)) ->
    simR (icRo o) g o k ta tb = Ok r -> (0 <= r)%R.
Proof. exact constructed_similarity_nonneg. Qed.

(* TOTALITY: for two terms of an acyclic ontology with exact caches, in every number structure whose exp
   is defined, the six IC-based algorithms always return a score; Distance returns whenever the
   distance fits u16 (usize_to_f32 panics beyond u16::MAX) *)
Theorem C04_ic_similarities_return : forall F fadd fsub fmul fdiv fgt fis0 fzero fnzero fone ftwo fmone f_of_u16 fexp ic,
  (forall x, exists y, fexp x = Ok y) -> forall o, qgood o -> forall g k a b,
  In a (ar_terms (o_arena o)) -> In b (ar_terms (o_arena o)) -> g <> ADistance -> g <> AMutation ->
  exists r, similarity F fadd fsub fmul fdiv fgt fis0 fzero fnzero fone ftwo fmone f_of_u16 fexp ic g o k a b = Ok r.
Proof. exact ic_similarities_return. Qed.

Theorem C04_distance_similarity_returns : forall F fadd fsub fmul fdiv fgt fis0 fzero fnzero fone ftwo fmone f_of_u16 fexp ic,
  (forall x, exists y, fexp x = Ok y) -> forall o, qgood o -> acyclic (o_arena o) -> forall k a b,
  In a (ar_terms (o_arena o)) -> In b (ar_terms (o_arena o)) -> (forall d, dist_term o a b = Ok (Some d) -> (d <= 65535)%N) ->
  exists r, similarity F fadd fsub fmul fdiv fgt fis0 fzero fnzero fone ftwo fmone f_of_u16 fexp ic ADistance o k a b = Ok r.
Proof. exact distance_similarity_returns. Qed.

Print Assumptions C04_self_is_one.
Print Assumptions C04_mutation_unannotated_zero.
Print Assumptions C04_distance_ignores_kind.
Print Assumptions C04_lin_zero_denominator_guard.
Print Assumptions C04_jc_zero_guard.
Print Assumptions C04_resnik_is_zero_or_an_ancestor_ic.
Print Assumptions C04_symmetric.
Print Assumptions C04_exact_scores_nonnegative.
Print Assumptions C04_builder_scores_nonnegative.
Print Assumptions C04_constructed_scores_nonnegative.
Print Assumptions C04_ic_similarities_return.
Print Assumptions C04_distance_similarity_returns.
