(* Properties/C02.v — annotations reach exactly the ancestors; records stay direct (C02) *)
From HpoV Require Import Model.Base Model.Onto Model.Dump Run.World Run.C02 Proofs.C02P.

(* For every observation that passes the executable statement (evaluated by the check on the real
   crate's observation of every generated ontology, for each of the three kinds separately): *)
Theorem C02_inherited_exact : forall ts k recs, kind_ok ts k recs = true ->
  forall t, In t ts -> forall g,
    In g (q_annots k t) <-> exists r, In r recs /\ da_id r = g /\ direct_below ts r (q_id t).
Proof. exact kind_ok_sound. Qed.

Theorem C02_records_wellformed : forall ts recs, recs_ok ts recs = true ->
  NoDup (map da_id recs) /\
  forall r, In r recs -> NoDup (da_hpos r) /\ forall d, In d (da_hpos r) -> exists td, qfind d ts = Some td.
Proof. exact recs_ok_sound. Qed.

Theorem C02_linked_ids_resolve : forall ts k recs, kind_ok ts k recs = true ->
  forall t, In t ts -> forall g, In g (q_annots k t) -> In g (map da_id recs).
Proof. exact linked_ids_resolve. Qed.

Print Assumptions C02_inherited_exact.
Print Assumptions C02_records_wellformed.
Print Assumptions C02_linked_ids_resolve.
