(* Properties/C02.v — annotations reach exactly the ancestors; records stay direct (C02) *)
From HpoV Require Import Gen.Consts Model.Base Model.Group Model.Onto Model.Dump Run.World Run.C02 Proofs.C02P Proofs.ClosureP Proofs.LinkP Proofs.RecordsP Proofs.GroupP Proofs.DistP Proofs.AcyclicP Proofs.AnnotP Proofs.BuilderAnnotP Model.Script Proofs.AllPathsP Proofs.TotalLinkP.

(* For every observation that passes the executable statement (evaluated by the check on the real
   crate's observation of every generated ontology, for each of the three kinds separately): *)
Theorem C02_inherited_exact : forall ts k recs, kind_ok ts k recs = true ->
  forall t, In t ts -> forall g,
    In g (q_annots k t) <-> exists r, In r recs /\ da_id r = g /\ direct_below ts r (q_id t).
Proof. exact kind_ok_sound. Qed.

Theorem C02_records_wellformed : forall ts recs, recs_ok ts recs = true ->
  NoDup (map da_id recs) /\
  forall r, In r recs -> NoDup (da_hpos r) /\ forall d, In d (da_hpos r) -> exists td, qfind d ts = Some td.
Proof. exact recs_ok_sound. Qed.

Theorem C02_linked_ids_resolve : forall ts k recs, kind_ok ts k recs = true ->
  forall t, In t ts -> forall g, In g (q_annots k t) -> In g (map da_id recs).
Proof. exact linked_ids_resolve. Qed.

(* ---- about the Gallina transcription of link_gene_term / link_omim_disease_term /
   link_orpha_disease_term (Model/Onto.v [link]), for EVERY arena whose ancestor caches are
   transitive and irreflexive (C01) ---- *)

(* one propagation, with the early exit "already linked => all ancestors linked": whenever it
   returns (every fuel), only annotation sets of that kind changed, and a term carries an
   annotation afterwards iff it carried it before or it is the annotation being propagated and the
   term is the target or one of its cached ancestors.  T is the set of terms on the call stack. *)
Theorem C02_model_link : forall k g fuel a tid a' T, good k a ->
  (forall y ty, In y T -> ar_find y a = Some ty -> In tid (t_allp ty)) ->
  upclosed_except k g T a ->
  link fuel k a tid g = Ok a' ->
  frame k a a' /\ good k a' /\
  (forall id x, has k a' id x <-> has k a id x \/ (x = g /\ In id (ar_keys a) /\ reach a tid id)) /\
  upclosed_except k g T a'.
Proof. exact link_spec. Qed.

(* any sequence of propagations (any order, repetitions, any fuel): inherited annotations are
   exactly "a direct fact at the term or at one of its descendants"; nothing else changes *)
Theorem C02_model_inherited_exact : forall k fuel facts a a', good k a -> (forall g, upclosed_except k g [] a) ->
  link_all k fuel facts a = Ok a' ->
  frame k a a' /\ good k a' /\ (forall g, upclosed_except k g [] a') /\
  forall id x, has k a' id x <->
    has k a id x \/ exists d, In (x, d) facts /\ In id (ar_keys a) /\ reach a d id.
Proof. exact link_all_spec. Qed.

(* the three kinds are framed: propagating kind k rewrites nothing but the kind-k sets *)
Theorem C02_model_kinds_framed : forall k a a' t', frame k a a' -> In t' (ar_terms a') ->
  exists t, In t (ar_terms a) /\ t' = set_annots k (t_annots k t') t.
Proof. exact frame_In_r. Qed.

(* records stay direct: one successful annotate_* call adds exactly that term to exactly that record
   (never an inherited term), creates the record if needed, and leaves the records of the other
   two kinds untouched; on the term side it is one propagation (C02_model_link) *)
Theorem C02_model_records_stay_direct : forall k id name tid o o', b_annotate k id name tid o = Ok o' ->
  (forall g x, In x (direct k o' g) <-> In x (direct k o g) \/ (g = id /\ x = tid)) /\
  (exists r, an_find id (o_records k o') = Some r) /\
  (forall k', k' <> k -> o_records k' o' = o_records k' o).
Proof. exact annotate_records. Qed.

Theorem C02_model_annotate_is_one_propagation : forall k id name tid o o', b_annotate k id name tid o = Ok o' ->
  link (link_fuel (o_arena o)) k (o_arena o) tid id = Ok (o_arena o').
Proof. exact annotate_is_link. Qed.

(* the hypotheses [good] of the propagation theorems above hold of every ontology with exact
   ancestor caches (qgood: proved of every Builder-built ontology, C11_builder_ontologies_are_qgood)
   whose is_a graph is acyclic and whose annotation sets are sorted *)
Theorem C02_propagation_hypotheses_hold : forall k o, qgood o -> acyclic (o_arena o) ->
  (forall t, In t (ar_terms (o_arena o)) -> sorted (t_annots k t)) -> good k (o_arena o).
Proof. exact qgood_good. Qed.

(* all records of one kind loaded into an ontology that carries none of that kind yet: every term
   ends up with exactly the ids that have a direct fact at the term or at one of its descendants *)
Theorem C02_model_record_phase : forall k o rs o', qgood o -> acyclic (o_arena o) ->
  (forall t, In t (ar_terms (o_arena o)) -> t_annots k t = []) ->
  foldM (SectionP.load_record k) rs o = Ok o' ->
  frame k (o_arena o) (o_arena o') /\
  forall t', In t' (ar_terms (o_arena o')) ->
    sorted (t_annots k t') /\
    forall x, In x (t_annots k t') <->
      exists r, In r rs /\ a_id r = x /\ exists d, In d (a_hpos r) /\ (t_id t' = d \/ In (t_id t') (allp_of (o_arena o) d)).
Proof. exact phase_spec. Qed.

(* THE PROPERTY, FOR EVERY BUILDER SCRIPT: whatever calls are made in whatever order (failing ones
   included), in the finished ontology the is_a graph is acyclic and every term carries, for each
   kind, exactly the ids of the records with a direct annotation at the term itself or at one of its
   descendants, as a sorted set *)
Theorem C02_builder_annotations_exact : forall icf s codes o, run_script icf s = Ok (codes, Ok o) ->
  acyclic (o_arena o) /\ ann_ok o.
Proof. exact run_script_ann_ok. Qed.

(* EACH CONSTRUCTION PATH ([constructed], Proofs/AllPathsP.v): every term carries exactly the ids of the
   records with a direct fact at the term or at a descendant, record ids are distinct, and every
   direct term of every record is a term of the ontology *)
Theorem C02_every_constructed_ontology : forall icf o, constructed icf o ->
  ann_ok o /\ (forall k, NoDup (map a_id (o_records k o))) /\
  (forall k r d, In r (o_records k o) -> In d (a_hpos r) -> In d (ar_keys (o_arena o))).
Proof. exact constructed_annotations. Qed.

(* TOTALITY of the upward propagation: in an arena with transitive, irreflexive, duplicate-free
   ancestor caches, linking an annotation to a stored term RETURNS whenever the fuel exceeds the
   size of the term's ancestor cache (link_fuel always does) *)
Theorem C02_model_link_returns : forall k g fuel a tid, good k a -> caches_nodup a -> In tid (ar_keys a) ->
  (length (allp_of a tid) < fuel)%nat -> exists a', link fuel k a tid g = Ok a'.
Proof. exact link_total. Qed.

Print Assumptions C02_inherited_exact.
Print Assumptions C02_records_wellformed.
Print Assumptions C02_linked_ids_resolve.
Print Assumptions C02_model_link.
Print Assumptions C02_model_inherited_exact.
Print Assumptions C02_model_kinds_framed.
Print Assumptions C02_model_records_stay_direct.
Print Assumptions C02_model_annotate_is_one_propagation.
Print Assumptions C02_propagation_hypotheses_hold.
Print Assumptions C02_model_record_phase.
Print Assumptions C02_builder_annotations_exact.
Print Assumptions C02_every_constructed_ontology.
Print Assumptions C02_model_link_returns.
