(* Sets.v — the finite-set vocabulary the specifications are written in.
   A "set of ids" is canonically a strictly ascending list; [set_of] builds it
   from an arbitrary list by an obviously-correct quadratic procedure that
   shares no code with Model/Group.v. *)
From HpoV Require Import Model.Base.

Fixpoint set_ins (x : N) (l : list N) : list N :=
  match l with
  | [] => [x]
  | y :: t => if x <? y then x :: l else if x =? y then l else y :: set_ins x t
  end.

Definition set_of (l : list N) : list N := fold_right set_ins [] l.

Definition set_union (a b : list N) : list N := set_of (a ++ b).
Definition set_inter (a b : list N) : list N := filter (fun x => mem x b) (set_of a).
Definition set_diff (a b : list N) : list N := filter (fun x => negb (mem x b)) (set_of a).
Definition subsetb (a b : list N) : bool := forallb (fun x => mem x b) a.
Definition set_eqb (a b : list N) : bool := subsetb a b && subsetb b a.

(* strictly ascending, as a boolean *)
Fixpoint ascb (l : list N) : bool :=
  match l with
  | [] => true
  | x :: t => match t with [] => true | y :: _ => (x <? y) && ascb t end
  end.
