(* CombineSpec.v — the documented combination of a pairwise similarity matrix, written by index
   arithmetic on the row-major data (no iterators): row i = [data[i*c + j] | j < c],
   column j = [data[i*c + j] | i < r]; funSimAvg = ((Σ row maxima)/r + (Σ column maxima)/c)/2,
   funSimMax = the larger of the two means, BMA = (Σ row maxima + Σ column maxima)/(r + c);
   0 when a dimension is 0. *)
From HpoV Require Import Model.Base Model.Matrix Model.Combine.

Section Spec.
  Variable F : Type.
  Variable fadd fdiv fmax : F -> F -> F.
  Variable fgt : F -> F -> bool.
  Variable fzero fnzero ftwo : F.
  Variable f_of_u16 : N -> F.

  Definition ref_rows (m : matrix F) : list (list F) :=
    map (fun i => map (fun j => m_at fzero m i j) (seq 0 (m_cols m))) (seq 0 (m_rows m)).
  Definition ref_cols (m : matrix F) : list (list F) :=
    map (fun j => map (fun i => m_at fzero m i j) (seq 0 (m_rows m))) (seq 0 (m_cols m)).

  Definition ref_max (l : list F) : F :=
    match l with [] => fzero | x :: t => fold_left (fun a b => if fgt a b then a else b) t x end.

  Definition ref_calc (c : combiner) (m : matrix F) : F :=
    if (Nat.eqb (m_rows m) 0) || (Nat.eqb (m_cols m) 0) then fzero
    else
      let sr := fold_left fadd (map ref_max (ref_rows m)) fnzero in
      let sc := fold_left fadd (map ref_max (ref_cols m)) fnzero in
      let r := f_of_u16 (N.of_nat (m_rows m)) in
      let k := f_of_u16 (N.of_nat (m_cols m)) in
      match c with
      | FunSimAvg => fdiv (fadd (fdiv sr r) (fdiv sc k)) ftwo
      | FunSimMax => fmax (fdiv sr r) (fdiv sc k)
      | Bma => fdiv (fadd sr sc) (fadd r k)
      end.
End Spec.
