(* Base.v — shared vocabulary of the executable model.
   Standard library only; no proofs live here (lemmas are in Proofs/). *)
From Coq Require Export List NArith Bool.
Export ListNotations.
Open Scope N_scope.

(* ------------------------------------------------------------------ *)
(* Results: every Rust function that can fail or panic returns [res].  *)
(* [Fuel] marks exhaustion of the explicit recursion fuel; it is never *)
(* a normal-looking answer and every theorem excludes it explicitly.   *)
(* ------------------------------------------------------------------ *)

(* mirrors src/lib.rs HpoError (CannotOpenFile is file-system, unmodelled) *)
Inductive err :=
| NotImplemented | DoesNotExist | ParseIntError | ParseBinaryError
| TryFromIntError | InvalidInput
| OracleMissing.  (* not a Rust error: the libm oracle table lacks an argument the model asked for *)

Inductive res (A : Type) :=
| Ok (a : A) | Err (e : err) | Panic | Fuel.
Arguments Ok {A} a.
Arguments Err {A} e.
Arguments Panic {A}.
Arguments Fuel {A}.

Definition bind {A B} (r : res A) (f : A -> res B) : res B :=
  match r with Ok a => f a | Err e => Err e | Panic => Panic | Fuel => Fuel end.
Notation "'do' x <- r ;; k" := (bind r (fun x => k))
  (at level 200, x pattern, r at level 100, k at level 200).

Definition is_ok {A} (r : res A) : bool := match r with Ok _ => true | _ => false end.

Definition opt_res {A} (e : err) (o : option A) : res A :=
  match o with Some a => Ok a | None => Err e end.
Definition opt_panic {A} (o : option A) : res A :=
  match o with Some a => Ok a | None => Panic end.

(* monadic fold over a list, left to right *)
Fixpoint foldM {A S} (f : S -> A -> res S) (l : list A) (s : S) : res S :=
  match l with
  | [] => Ok s
  | a :: t => do s' <- f s a ;; foldM f t s'
  end.

Fixpoint mapM {A B} (f : A -> res B) (l : list A) : res (list B) :=
  match l with
  | [] => Ok []
  | a :: t => do b <- f a ;; do bs <- mapM f t ;; Ok (b :: bs)
  end.

(* ------------------------------------------------------------------ *)
(* Small list utilities                                                *)
(* ------------------------------------------------------------------ *)

Definition Nlen {A} (l : list A) : N := N.of_nat (length l).

Fixpoint mem (x : N) (l : list N) : bool :=
  match l with [] => false | y :: t => if x =? y then true else mem x t end.

Fixpoint list_eqb (a b : list N) : bool :=
  match a, b with
  | [], [] => true
  | x :: a', y :: b' => (x =? y) && list_eqb a' b'
  | _, _ => false
  end.

Definition opt_eqb (a b : option N) : bool :=
  match a, b with
  | None, None => true
  | Some x, Some y => x =? y
  | _, _ => false
  end.

(* insertion sort on N, ascending, keeping duplicates: used only to
   canonicalise observations whose order Rust leaves unspecified *)
Fixpoint ins_sorted (x : N) (l : list N) : list N :=
  match l with
  | [] => [x]
  | y :: t => if x <=? y then x :: l else y :: ins_sorted x t
  end.
Definition sortN (l : list N) : list N := fold_right ins_sorted [] l.

(* insertion sort by key *)
Fixpoint ins_by {A} (key : A -> N) (x : A) (l : list A) : list A :=
  match l with
  | [] => [x]
  | y :: t => if key x <=? key y then x :: l else y :: ins_by key x t
  end.
Definition sort_by {A} (key : A -> N) (l : list A) : list A :=
  fold_right (ins_by key) [] l.

Fixpoint find_by {A} (key : A -> N) (k : N) (l : list A) : option A :=
  match l with
  | [] => None
  | a :: t => if key a =? k then Some a else find_by key k t
  end.

(* replace the first element with key k by (f elt) *)
Fixpoint update_by {A} (key : A -> N) (k : N) (f : A -> A) (l : list A) : list A :=
  match l with
  | [] => []
  | a :: t => if key a =? k then f a :: t else a :: update_by key k f t
  end.

Definition nat_of (n : N) : nat := N.to_nat n.

(* option helpers for printing *)
Definition optN (o : option N) : list N := match o with Some x => [x] | None => [] end.
Definition boolN (b : bool) : N := if b then 1 else 0.
