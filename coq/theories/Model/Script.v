(* Script.v — driving the Builder typestates the way client code does
   (builder.rs module docs): new_term*, terms_complete, add_parent*,
   connect_all_terms, add_gene / annotate_* ..., calculate_information_content,
   build_minimal | build_with_defaults.  A failing call (Err) leaves the builder
   as it is and the script continues, exactly like a client that ignores the
   error value. *)
From HpoV Require Import Gen.Consts Model.Base Model.Group Model.Onto Model.Query Model.Dump.

(* (tag, id, term, name): tags 0,1,2 = add_gene / add_omim_disease /
   add_orpha_disease; 3,4,5 = annotate_gene / annotate_omim_disease /
   annotate_orpha_disease *)
Definition annot_op : Type := N * N * N * list N.

Definition script : Type :=
  (N * N * N)                 (* set_hpo_version *)
  * list (N * list N)         (* new_term id name *)
  * list (N * N)              (* add_parent parent child *)
  * list annot_op
  * N.                        (* 0 = build_minimal, 1 = build_with_defaults *)

Definition kind_of (tag : N) : kind :=
  match tag with 0 | 3 => KGene | 1 | 4 => KOmim | _ => KOrpha end.

(* result codes of the fallible calls: 0 = Ok(()), 1 = Err(DoesNotExist), 9 = any other error *)
Definition code {A} (r : res A) : N :=
  match r with Ok _ => 0 | Err DoesNotExist => 1 | _ => 9 end.

(* a call that returns Err leaves the state; Panic / Fuel abort the script *)
Definition step_keep (r : res onto) (o : onto) : res (onto * N) :=
  match r with
  | Ok o' => Ok (o', 0)
  | Err e => Ok (o, code (@Err onto e))
  | Panic => Panic
  | Fuel => Fuel
  end.

Section Run.
  Variable icf : N -> N -> res N.

  Definition run_annot_op (o : onto) (op : annot_op) : res (onto * N) :=
    let '(tag, id, tid, name) := op in
    if tag <? 3 then Ok (b_add_record (kind_of tag) name id o, 0)
    else step_keep (b_annotate (kind_of tag) id name tid o) o.

  Definition run_ops {Op} (f : onto -> Op -> res (onto * N)) (ops : list Op) (o : onto)
    : res (onto * list N) :=
    foldM (fun (st : onto * list N) op =>
             let (o1, codes) := st in
             do r <- f o1 op ;; let (o2, c) := r : onto * N in Ok (o2, codes ++ [c]))
          ops (o, []).

  (* the builder after calculate_information_content, with the codes of the fallible calls *)
  Definition run_builder (s : script) : res (onto * list N) :=
    let '(ver, terms, parents, annots, _) := s in
    let o0 := set_version ver onto_new in
    do o1 <- foldM (fun o (t : N * list N) => b_new_term (snd t) (fst t) o) terms o0 ;;
    do r2 <- run_ops (fun o (pc : N * N) => step_keep (b_add_parent (fst pc) (snd pc) o) o) parents o1 ;;
    let (o2, codes2) := r2 : onto * list N in
    do o3 <- b_connect_all_terms o2 ;;
    do r4 <- run_ops run_annot_op annots o3 ;;
    let (o4, codes4) := r4 : onto * list N in
    Ok (o4, codes2 ++ codes4).

  Definition finish (kindb : N) (o : onto) : res onto :=
    do o5 <- b_calculate_ic icf o ;;
    if kindb =? 0 then Ok (b_build_minimal o5) else b_build_with_defaults o5.

  Definition run_script (s : script) : res (list N * res onto) :=
    let '(_, _, _, _, kindb) := s in
    do r <- run_builder s ;;
    let (o, codes) := r : onto * list N in
    match finish kindb o with
    | Panic => Panic
    | Fuel => Fuel
    | r => Ok (codes, r)
    end.
End Run.
