(* F64.v — IEEE-754 binary64 arithmetic of the model (Flocq), addressed through bit patterns.
   Used for the fold enrichment (k/n)/(K/N) of src/stats/hypergeom/*.rs. *)
From Flocq Require Import IEEE754.BinarySingleNaN IEEE754.Binary IEEE754.Bits Core.
From Coq Require Import ZArith NArith.
From HpoV Require Import Model.Base.

Definition f64 := binary64.
Definition canon_nan64 : N := 9221120237041090560.   (* 0x7ff8000000000000 *)

Definition of_bits64 (n : N) : f64 := b64_of_bits (Z.of_N n).
Definition to_bits64 (f : f64) : N :=
  if Binary.is_nan 53 1024 f then canon_nan64 else Z.to_N (bits_of_b64 f).

Definition fdiv64 (a b : f64) : f64 := b64_div mode_NE a b.

(* exact for every u32: `u32 -> f64` (From<u32> for f64) *)
Definition f64_of_N (n : N) : f64 :=
  binary_normalize 53 1024 (refl_equal _) (refl_equal _) mode_NE (Z.of_N n) 0 false.
