(* Render.v — model of Ontology::as_mermaid and Ontology::as_graphviz (src/ontology.rs:1016-1060):
   the text is assembled term by term in arena (insertion) order, children() in ascending id order
   (a resolving iterator: a dangling child id panics). *)
From HpoV Require Import Gen.Consts Model.Base Model.Group Model.Onto Model.Query Model.Binary Model.TermId.

Definition s_graph_td : bytes := [103; 114; 97; 112; 104; 32; 84; 68; 10].      (* "graph TD" + newline *)
Definition s_arrow : bytes := [32; 45; 45; 62; 32].            (* " --> " *)
Definition s_digraph : bytes := [100; 105; 103; 114; 97; 112; 104; 32; 71; 32; 32; 123; 10].        (* "digraph G  {" + newline *)
Definition s_layout : bytes := [108; 97; 121; 111; 117; 116; 61].          (* "layout=" *)
Definition s_gv_arrow : bytes := [34; 32; 45; 62; 32; 34].       (* quote, " -> ", quote *)
Definition s_close : bytes := [125; 10].            (* closing brace + newline *)
Definition QUOTE : N := 34.
Definition NLr : N := 10.
Definition SPACE : N := 32.

(* id, '[', quote, id, newline, name, quote, ']', newline *)
Definition mermaid_node (t : term) : bytes :=
  show (t_id t) ++ [91; QUOTE] ++ show (t_id t) ++ [NLr] ++ t_name t ++ [QUOTE; 93; NLr].
(* id " --> " child id, newline *)
Definition mermaid_edge (t c : term) : bytes := show (t_id t) ++ s_arrow ++ show (t_id c) ++ [NLr].

Definition mermaid (o : onto) : res bytes :=
  do parts <- mapM (fun t => do cs <- resolve_all o (t_children t) ;;
                             Ok (mermaid_node t ++ concat (map (mermaid_edge t) cs)))
                   (ar_terms (o_arena o)) ;;
  Ok (s_graph_td ++ concat parts).

(* str::replace: every space becomes a newline *)
Definition spaces_to_nl (s : bytes) : bytes := map (fun b => if b =? SPACE then NLr else b) s.
(* quote, term name, quote " -> " quote, child name, quote, newline *)
Definition graphviz_edge (t c : term) : bytes :=
  [QUOTE] ++ spaces_to_nl (t_name t) ++ s_gv_arrow ++ spaces_to_nl (t_name c) ++ [QUOTE; NLr].

Definition graphviz (layout : bytes) (o : onto) : res bytes :=
  do parts <- mapM (fun t => do cs <- resolve_all o (t_children t) ;; Ok (concat (map (graphviz_edge t) cs)))
                   (ar_terms (o_arena o)) ;;
  Ok (s_digraph ++ s_layout ++ layout ++ [NLr] ++ concat parts ++ s_close).
