(* ManyTerms.v — a Builder script that only creates terms: `count` new_term calls with the ids
   first, first+stride, ... and one fixed name, then terms_complete, connect_all_terms,
   calculate_information_content, build_minimal.  More than 65 535 terms are needed to leave the
   range of a 16-bit arena index; inserting them one call at a time and running connect_all_terms
   over them is quadratic in the model's lists, so the run uses the block forms below.
   Proofs/ManyTermsP.v proves them equal to the call-by-call transcription for every
   first / stride / count. *)
From HpoV Require Import Gen.Consts Model.Base Model.Group Model.Onto Model.Query Model.Dump Model.Script.

Definition many_name : list N := [116].   (* "t" *)

Fixpoint tseq (first stride : N) (count : nat) : list N :=
  match count with O => [] | S c => first :: tseq (first + stride) stride c end.

(* the calls, spelled out *)
Definition many_slow (first stride : N) (count : nat) (o : onto) : res onto :=
  foldM (fun o id => b_new_term many_name id o) (tseq first stride count) o.

Definition many_terms (first stride : N) (count : nat) (o : onto) : res onto :=
  match ar_terms (o_arena o) with
  | [] =>
      if (1 <=? stride) && (first + stride * N.of_nat count <=? MAX_HPO_ID)
      then Ok (set_arena (mkArena (ar_ph (o_arena o)) (map (new_term many_name) (tseq first stride count))) o)
      else many_slow first stride count o
  | _ => many_slow first stride count o
  end.

Definition unlinked (t : term) : bool :=
  match t_parents t, t_allp t with [], [] => true | _, _ => false end.

(* connect_all_terms on an arena without any parent link changes nothing *)
Definition connect_unlinked (o : onto) : res onto :=
  if forallb unlinked (ar_terms (o_arena o)) && forallb (fun t => t_id t <? MAX_HPO_ID) (ar_terms (o_arena o))
  then Ok o else b_connect_all_terms o.

Section Run.
  Variable icf : N -> N -> res N.

  Definition run_many (ver : N * N * N) (first stride : N) (count : nat) : res (list N * res onto) :=
    do o1 <- many_terms first stride count (set_version ver onto_new) ;;
    do o3 <- connect_unlinked o1 ;;
    match finish icf 0 o3 with
    | Panic => Panic
    | Fuel => Fuel
    | r => Ok ([], r)
    end.
End Run.

Definition many_script (ver : N * N * N) (first stride : N) (count : nat) : script :=
  (ver, map (fun id => (id, many_name)) (tseq first stride count), [], [], 0).
