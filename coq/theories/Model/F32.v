(* F32.v — IEEE-754 binary32 arithmetic of the model: Flocq's binary32 with
   round-to-nearest-even, addressed through bit patterns (N).  Rust guarantees
   IEEE semantics for + - * / and comparisons on f32 and never contracts to FMA.
   NaN payloads are not compared: every NaN prints as [canon_nan]. *)
From Flocq Require Import IEEE754.BinarySingleNaN IEEE754.Binary IEEE754.Bits Core.
From Coq Require Import ZArith NArith.
From HpoV Require Import Model.Base.

Definition f32 := binary32.

Definition canon_nan : N := 2143289344.   (* 0x7fc00000 *)

Definition of_bits (n : N) : f32 := b32_of_bits (Z.of_N n).
Definition to_bits (f : f32) : N :=
  if Binary.is_nan 24 128 f then canon_nan else Z.to_N (bits_of_b32 f).

Definition fadd (a b : f32) : f32 := b32_plus mode_NE a b.
Definition fsub (a b : f32) : f32 := b32_minus mode_NE a b.
Definition fmul (a b : f32) : f32 := b32_mult mode_NE a b.
Definition fdiv (a b : f32) : f32 := b32_div mode_NE a b.

Definition flt (a b : f32) : bool := match b32_compare a b with Some Lt => true | _ => false end.
Definition fgt (a b : f32) : bool := match b32_compare a b with Some Gt => true | _ => false end.
Definition feq (a b : f32) : bool := match b32_compare a b with Some Eq => true | _ => false end.

(* exact for |z| < 2^24: u16 -> f32 (`From<u16> for f32`) *)
Definition f_of_Z (z : Z) : f32 :=
  binary_normalize 24 128 (refl_equal _) (refl_equal _) mode_NE z 0 false.
Definition f_of_N (n : N) : f32 := f_of_Z (Z.of_N n).

Definition f_zero : f32 := of_bits 0.
Definition f_nzero : f32 := of_bits 2147483648.      (* -0.0: the start value of `Sum for f32` *)
Definition f_one : f32 := of_bits 1065353216.
Definition f_two : f32 := of_bits 1073741824.
Definition f_mone : f32 := of_bits 3212836864.

(* f32::max (IEEE maxNum): a NaN operand is ignored *)
Definition fmax (a b : f32) : f32 :=
  if Binary.is_nan 24 128 a then b else if Binary.is_nan 24 128 b then a
  else if flt a b then b else a.

(* `iter().sum::<f32>()` *)
Definition fsum (l : list f32) : f32 := fold_left fadd l f_nzero.
