(* Query.v — model of the read API of src/term/hpoterm.rs (HpoTerm) *)
From HpoV Require Import Gen.Consts Model.Base Model.Group Model.Onto.

(* term::Iter (src/term.rs:31-47): resolving an id panics when it is absent *)
Definition resolve (o : onto) (id : N) : res term := opt_panic (o_get id o).
Definition resolve_all (o : onto) (g : group) : res (list term) := mapM (resolve o) g.

(* hpoterm.rs: ancestor-set algebra *)
Definition all_common_ancestor_ids (a b : term) : group :=
  g_inter (g_plus (t_allp a) (t_id a)) (g_plus (t_allp b) (t_id b)).
Definition common_ancestor_ids (a b : term) : group := g_inter (t_allp a) (t_allp b).
Definition all_union_ancestor_ids (a b : term) : group := g_union (t_allp a) (t_allp b).
Definition union_ancestor_ids (a b : term) : group := g_union (t_allp a) (t_allp b).

Definition child_of (a b : term) : bool := g_contains (t_id b) (t_allp a).
Definition parent_of (a b : term) : bool := child_of b a.

Fixpoint min_opt (l : list (option N)) : option N :=
  match l with
  | [] => None
  | None :: t => min_opt t
  | Some x :: t => match min_opt t with None => Some x | Some y => Some (N.min x y) end
  end.

(* distance_to_ancestor *)
Fixpoint dist_anc (fuel : nat) (o : onto) (a b : term) : res (option N) :=
  match fuel with
  | O => Fuel
  | S f =>
      if t_id a =? t_id b then Ok (Some 0)
      else if g_contains (t_id b) (t_parents a) then Ok (Some 1)
      else if negb (g_contains (t_id b) (t_allp a)) then Ok None
      else
        do ds <- mapM (fun pid => do p <- resolve o pid ;; dist_anc f o p b) (t_parents a) ;;
        Ok (option_map (fun c => c + 1) (min_opt ds))
  end.

(* Iterator::min_by_key returns the first minimum *)
Fixpoint first_min_by {A} (key : A -> N) (l : list A) : option A :=
  match l with
  | [] => None
  | x :: t =>
      match first_min_by key t with
      | None => Some x
      | Some y => if key y <? key x then Some y else Some x
      end
  end.

Fixpoint somes {A} (l : list (option A)) : list A :=
  match l with [] => [] | None :: t => somes t | Some x :: t => x :: somes t end.

(* path_to_ancestor *)
Fixpoint path_anc (fuel : nat) (o : onto) (a b : term) : res (option (list N)) :=
  match fuel with
  | O => Fuel
  | S f =>
      if t_id a =? t_id b then Ok (Some [])
      else if g_contains (t_id b) (t_parents a) then Ok (Some [t_id b])
      else if negb (g_contains (t_id b) (t_allp a)) then Ok None
      else
        do ps <- mapM (fun pid => do p <- resolve o pid ;;
                                  do r <- path_anc f o p b ;;
                                  Ok (option_map (fun x => t_id p :: x) r)) (t_parents a) ;;
        Ok (first_min_by (fun (x : list N) => Nlen x) (somes ps))
  end.

Definition q_fuel (o : onto) : nat := S (S (length (ar_terms (o_arena o)))).

(* distance_to_term *)
Definition dist_term (o : onto) (a b : term) : res (option N) :=
  do cs <- resolve_all o (all_common_ancestor_ids a b) ;;
  do ds <- mapM (fun c => do d1 <- dist_anc (q_fuel o) o a c ;;
                          do d2 <- dist_anc (q_fuel o) o b c ;;
                          Ok (match d1, d2 with Some x, Some y => Some (x + y) | _, _ => None end)) cs ;;
  Ok (min_opt ds).

(* path_to_term (after fix) *)
Definition path_term (o : onto) (a b : term) : res (option (list N)) :=
  do cs <- resolve_all o (all_common_ancestor_ids a b) ;;
  do ds <- mapM (fun c => do d1 <- dist_anc (q_fuel o) o a c ;;
                          do d2 <- dist_anc (q_fuel o) o b c ;;
                          match d1, d2 with
                          | Some x, Some y => Ok (c, x + y)
                          | _, _ => Panic     (* expect("... must have a path to its ancestor") *)
                          end) cs ;;
  match first_min_by snd ds with
  | None => Ok None
  | Some (c, _) =>
      do up <- path_anc (q_fuel o) o a c ;;
      match up with
      | None => Panic
      | Some up =>
          if negb (t_id a =? t_id b) && (t_id c =? t_id b) then Ok (Some up)
          else
            do down <- path_anc (q_fuel o) o b c ;;
            match down with
            | None => Panic
            | Some down => Ok (Some (up ++ tl (rev down) ++ [t_id b]))
            end
      end
  end.

(* is_modifier / categories *)
Definition is_modifier (o : onto) (t : term) : bool :=
  existsb (fun r => g_contains r (g_bitor_id (t_allp t) (t_id t))) (o_mod o).
Definition categories (o : onto) (t : term) : list N :=
  filter (fun c => g_contains c (g_bitor_id (t_allp t) (t_id t))) (o_cat o).

(* replaced_by: the replacement resolved in the same ontology *)
Definition replaced_by (o : onto) (t : term) : option term :=
  match t_repl t with None => None | Some r => o_get r o end.
