(* Similarity.v — model of src/similarity/defaults.rs (GraphIc, Resnik, Lin, Jc, Relevance,
   InformationCoefficient, Distance, Mutation) and of the Builtins dispatch (similarity.rs:456-525),
   over an abstract number structure: proved about in general, executed on Flocq binary32.
   `f32::exp` is a platform function: it enters as the oracle [fexp] (DESIGN.md §2.6). *)
From HpoV Require Import Gen.Consts Model.Base Model.Group Model.Onto Model.Query.

Inductive alg := AGraphIc | AResnik | ALin | AJc | ARelevance | AInfCoef | ADistance | AMutation.

Section Num.
  Variable F : Type.
  Variable fadd fsub fmul fdiv : F -> F -> F.
  Variable fgt : F -> F -> bool.
  Variable fis0 : F -> bool.                 (* x == 0.0 (true for both zeros) *)
  Variable fzero fnzero fone ftwo fmone : F.
  Variable f_of_u16 : N -> F.
  Variable fexp : F -> res F.                (* oracle: Err OracleMissing when not supplied *)
  Variable ic : kind -> term -> F.           (* information_content().get_kind(kind) *)

  (* Iterator<Item = f32>::sum folds from -0.0 *)
  Definition sum_ic (k : kind) (ts : list term) : F := fold_left (fun acc t => fadd acc (ic k t)) ts fnzero.

  (* defaults.rs:60-83 *)
  Definition graphic (o : onto) (k : kind) (a b : term) : res F :=
    if t_id a =? t_id b then Ok fone
    else
      do us <- resolve_all o (union_ancestor_ids a b) ;;       (* all_union_ancestors: parents only *)
      let ic_union := sum_ic k us in
      if fis0 ic_union then Ok fzero
      else
        do cs <- resolve_all o (all_common_ancestor_ids a b) ;;
        Ok (fdiv (sum_ic k cs) ic_union).

  (* defaults.rs:112-119: fold(0.0, |max, term| if term > max { term } else { max }) *)
  Definition resnik (o : onto) (k : kind) (a b : term) : res F :=
    do cs <- resolve_all o (all_common_ancestor_ids a b) ;;
    Ok (fold_left (fun mx t => if fgt (ic k t) mx then ic k t else mx) cs fzero).

  (* defaults.rs:148-160 *)
  Definition lin (o : onto) (k : kind) (a b : term) : res F :=
    let ic_combined := fadd (ic k a) (ic k b) in
    if fis0 ic_combined then Ok fzero
    else do r <- resnik o k a b ;; Ok (fdiv (fmul ftwo r) ic_combined).

  (* defaults.rs:191-207 *)
  Definition jc (o : onto) (k : kind) (a b : term) : res F :=
    if t_id a =? t_id b then Ok fone
    else
      let ic1 := ic k a in let ic2 := ic k b in
      if fis0 ic1 || fis0 ic2 then Ok fzero
      else do r <- resnik o k a b ;;
           Ok (fdiv fone (fadd (fsub (fadd ic1 ic2) (fmul ftwo r)) fone)).

  (* defaults.rs:240-247 *)
  Definition relevance (o : onto) (k : kind) (a b : term) : res F :=
    do r <- resnik o k a b ;;
    do l <- lin o k a b ;;
    do e <- fexp (fmul r fmone) ;;
    Ok (fmul l (fsub fone e)).

  (* defaults.rs:279-286 *)
  Definition infcoef (o : onto) (k : kind) (a b : term) : res F :=
    do r <- resnik o k a b ;;
    do l <- lin o k a b ;;
    Ok (fmul l (fsub fone (fdiv fone (fadd fone r)))).

  (* usize_to_f32 (similarity.rs:527-531) *)
  Definition usize_f (n : N) : res F := if 65535 <? n then Panic else Ok (f_of_u16 n).

  (* defaults.rs:307-312 *)
  Definition distance_sim (o : onto) (a b : term) : res F :=
    do d <- dist_term o a b ;;
    match d with
    | None => Ok fzero
    | Some n => do x <- usize_f n ;; Ok (fdiv fone (fadd x fone))
    end.

  (* defaults.rs:327-386 (after fix: empty union = 0 for genes as for diseases); HashSet | and & *)
  Definition mutation (k : kind) (a b : term) : res F :=
    if t_id a =? t_id b then Ok fone
    else
      let sa := t_annots k a in let sb := t_annots k b in
      let all := sa ++ filter (fun x => negb (mem x sa)) sb in
      let common := filter (fun x => mem x sb) sa in
      match all with
      | [] => Ok fzero
      | _ => do c <- usize_f (Nlen common) ;; do u <- usize_f (Nlen all) ;; Ok (fdiv c u)
      end.

  (* Builtins::calculate (similarity.rs:500-525): Distance ignores the kind *)
  Definition similarity (g : alg) (o : onto) (k : kind) (a b : term) : res F :=
    match g with
    | AGraphIc => graphic o k a b
    | AResnik => resnik o k a b
    | ALin => lin o k a b
    | AJc => jc o k a b
    | ARelevance => relevance o k a b
    | AInfCoef => infcoef o k a b
    | ADistance => distance_sim o a b
    | AMutation => mutation k a b
    end.
End Num.

Definition all_algs : list alg := [AGraphIc; AResnik; ALin; AJc; ARelevance; AInfCoef; ADistance; AMutation].
Definition all_kinds : list kind := [KGene; KOmim; KOrpha].
