(* Group.v — model of src/term/group.rs (HpoGroup).
   An HpoGroup is a SmallVec of HpoTermId kept in ascending order; the model
   is [list N].  SmallVec's inline/heap storage switch is not modelled (a
   memory-representation matter; covered by correspondence across size 30). *)
From HpoV Require Import Model.Base.

Definition group := list N.

(* group.rs:86-95  insert: binary_search, then Vec::insert at the returned
   index.  On a sorted vector binary_search returns the unique position that
   keeps the order; that is what this linear scan computes.  The flag is
   "the id was new". *)
Fixpoint g_insert (x : N) (l : group) : group * bool :=
  match l with
  | [] => ([x], true)
  | y :: t =>
      if x <? y then (x :: l, true)
      else if x =? y then (l, false)
      else let (t', b) := g_insert x t in (y :: t', b)
  end.

Definition g_add (l : group) (x : N) : group := fst (g_insert x l).

(* group.rs:101-103 contains: binary_search(..).is_ok().  On a sorted vector
   the search succeeds iff the id occurs; the scan below stops at the first
   larger element, as any comparison-based search on sorted data may. *)
Fixpoint g_contains (x : N) (l : group) : bool :=
  match l with
  | [] => false
  | y :: t => if x =? y then true else if x <? y then false else g_contains x t
  end.

Definition g_len (l : group) : N := Nlen l.
Definition g_is_empty (l : group) : bool := match l with [] => true | _ => false end.
Definition g_get (l : group) (i : N) : option N := nth_error l (nat_of i).

(* group.rs:126-165  From<HashSet>, From<Vec<HpoTermId>>, From<Vec<u32>>,
   FromIterator: a fold of insert over the source *)
Definition g_from_list (l : list N) : group := fold_left g_add l [].

(* group.rs:181-223  BitOr for &HpoGroup: parallel merge with unchecked
   append.  [merge] recurses structurally on the left list and, inside, on the
   right list; the three-way comparison is the code's [l.cmp(&r)]. *)
Fixpoint g_union (a : group) : group -> group :=
  fix inner (b : group) : group :=
    match a, b with
    | [], _ => b
    | _, [] => a
    | x :: a', y :: b' =>
        if x <? y then x :: g_union a' b
        else if y <? x then y :: inner b'
        else x :: g_union a' b'
    end.

(* group.rs:243-266  BitOr<HpoTermId> / Add<HpoTermId>: copy, then insert *)
Definition g_bitor_id (l : group) (x : N) : group := g_add l x.
Definition g_plus (l : group) (x : N) : group := g_add l x.

(* group.rs:276-293  BitAnd: iterate the smaller group (the left one on equal
   length is "small" only if strictly shorter: `if self.len() > rhs.len()
   {(self, rhs)} else {(rhs, self)}`), keep the ids that the larger one
   contains (slice::contains — a linear scan, no sortedness needed) *)
Definition g_inter (a b : group) : group :=
  let '(large, small) :=
    if (Nlen b <? Nlen a) then (a, b) else (b, a) in
  filter (fun x => mem x large) small.

(* group.rs:106-108 as_bytes is modelled in Binary.v *)
