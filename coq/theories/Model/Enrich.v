(* Enrich.v — model of src/stats.rs (calculate_counts, SampleSet) and of
   src/stats/hypergeom/{gene,disease,statrs}.rs (enrichment records, Hypergeometric).
   The p-value is modelled in EXACT arithmetic (a rational numerator / denominator): the f64
   evaluation through ln_gamma / ln / exp has no bit-level specification (libm); the check compares
   the crate's f64 with the exact value under a stated tolerance.  Counts, the (N, K, n, k) wiring
   and the fold enrichment are exact / bit-exact. *)
From HpoV Require Import Gen.Consts Model.Base Model.Group Model.Onto Model.Query Model.F64.

(* ---------------- calculate_counts (stats.rs:95-121) ---------------- *)

Fixpoint count_add (id : N) (c : list (N * N)) : list (N * N) :=
  match c with
  | [] => [(id, 1)]
  | (x, v) :: t => if x =? id then (x, v + 1) :: t else (x, v) :: count_add id t
  end.

(* term.genes() / omim_diseases() / orpha_diseases() resolve every id (panic on a dangling one) *)
Definition term_annot_ids (o : onto) (k : kind) (t : term) : res (list N) :=
  do _ <- mapM (fun g => opt_panic (an_find g (o_records k o))) (t_annots k t) ;; Ok (t_annots k t).

Definition calculate_counts (o : onto) (k : kind) (terms : list term) : res (N * list (N * N)) :=
  foldM (fun (st : N * list (N * N)) t =>
           do ids <- term_annot_ids o k t ;;
           Ok (fst st + 1, fold_left (fun c id => count_add id c) ids (snd st)))
        terms (0, []).

Definition counts_get (id : N) (c : list (N * N)) : option N :=
  match find_by fst id c with Some p => Some (snd p) | None => None end.

(* ---------------- Hypergeometric (statrs.rs:62-146), exact arithmetic ---------------- *)

(* falling factorial n (n-1) ... (n-k+1) and k! over N; the binomial as their exact quotient *)
Fixpoint ffactN (n : N) (k : nat) : N :=
  match k with O => 1 | S k' => n * ffactN (n - 1) k' end.
Fixpoint factN (k : nat) : N := match k with O => 1 | S k' => N.of_nat k * factN k' end.
Definition binN (n k : N) : N := if n <? k then 0 else ffactN n (nat_of k) / factN (nat_of k).

Definition hg_min (pop succ draws : N) : N := (draws + succ) - pop.      (* saturating_sub *)
Definition hg_max (succ draws : N) : N := N.min succ draws.

(* numerator of sum_{i = lo}^{hi} C(K, i) C(N-K, n-i) *)
Fixpoint tail_num (pop succ draws : N) (lo : N) (cnt : nat) : N :=
  match cnt with
  | O => 0
  | S c => binN succ lo * binN (pop - succ) (draws - lo) + tail_num pop succ draws (lo + 1) c
  end.

(* sf(x) as (numerator, denominator): the three branches of the code *)
Definition sf_exact (pop succ draws x : N) : N * N :=
  if x <? hg_min pop succ draws then (1, 1)
  else if hg_max succ draws <=? x then (0, 1)
  else (tail_num pop succ draws (x + 1) (nat_of (hg_max succ draws - x)), binN pop draws).

(* The same value by recurrences (each step multiplies / divides exactly by small numbers): this is
   what the check executes for populations of a thousand terms, where the quotient of two
   thousand-digit factorials is too slow inside Coq.  Proofs/C06P.v relates it to [sf_exact]. *)
Fixpoint bin_loop (n k : N) (i : nat) (acc : N) : N :=
  (* acc = C(n - k + j, j) for j = number of steps done so far *)
  match i with
  | O => acc
  | S i' => let j := k - N.of_nat i' in bin_loop n k i' (acc * (n - k + j) / j)
  end.
Definition bin_fast (n k : N) : N := if n <? k then 0 else bin_loop n k (nat_of k) 1.

(* t = C(K, i) C(N-K, n-i); next: t * (K-i) (n-i) / ((i+1) (N-K-n+i+1)) *)
Fixpoint tail_loop (pop succ draws : N) (i : N) (cnt : nat) (t acc : N) : N :=
  match cnt with
  | O => acc
  | S c =>
      let t' := t * (succ - i) * (draws - i) / ((i + 1) * (pop - succ + i + 1 - draws)) in
      tail_loop pop succ draws (i + 1) c t' (acc + t)
  end.

Definition sf_fast (pop succ draws x : N) : N * N :=
  if x <? hg_min pop succ draws then (1, 1)
  else if hg_max succ draws <=? x then (0, 1)
  else
    let lo := x + 1 in
    (tail_loop pop succ draws lo (nat_of (hg_max succ draws - x))
               (bin_fast succ lo * bin_fast (pop - succ) (draws - lo)) 0,
     bin_fast pop draws).

(* ---------------- inner_*_enrichment ---------------- *)

(* f64_from_u64: try_into::<u32>().expect(..) *)
Definition f64_from_u64 (n : N) : res f64 := if 4294967295 <? n then Panic else Ok (f64_of_N n).

(* id, count k, exact p-value (num, den), fold-enrichment bits *)
Definition erecord : Type := N * N * (N * N) * N.

Definition enrichment (o : onto) (k : kind) (background sample : list term) : res (list erecord) :=
  do bg <- calculate_counts o k background ;;
  do ss <- calculate_counts o k sample ;;
  mapM (fun (e : N * N) =>
          let (id, obs) := e in
          match counts_get id (snd bg) with
          | None => Panic                         (* expect("... must be present in background set") *)
          | Some succ =>
              if (fst bg <? succ) || (fst bg <? fst ss) then Panic   (* Hypergeometric::new(..).expect(..) *)
              else
                do a <- f64_from_u64 obs ;;
                do b <- f64_from_u64 (fst ss) ;;
                do c <- f64_from_u64 succ ;;
                do d <- f64_from_u64 (fst bg) ;;
                Ok (id, obs, sf_fast (fst bg) succ (fst ss) (obs - 1), to_bits64 (fdiv64 (fdiv64 a b) (fdiv64 c d)))
          end)
       (filter (fun e : N * N => negb (snd e =? 0)) (snd ss)).
