(* Dump.v — the canonical observation of an ontology through its read API
   (what the harness prints for the real crate, in the same shape). *)
From HpoV Require Import Gen.Consts Model.Base Model.Group Model.Onto Model.Query.

Definition dterm : Type :=
  N * list N * N * list N * list N            (* id, name, obsolete, replacement id, replaced_by (resolved) *)
  * list N * list N * list N                  (* parents, children, all parents *)
  * list N * list N * list N                  (* gene ids, omim ids, orpha ids *)
  * (N * N * N)                               (* information content bits *)
  * N * list N.                               (* is_modifier, categories *)

Definition dump_term (o : onto) (t : term) : res dterm :=
  (* the iterator accessors resolve every id: parents(), children(),
     all_parents(), genes(), omim_diseases(), orpha_diseases() *)
  do _ <- resolve_all o (t_parents t) ;;
  do _ <- resolve_all o (t_children t) ;;
  do _ <- resolve_all o (t_allp t) ;;
  do _ <- mapM (fun g => opt_panic (an_find g (o_genes o))) (t_genes t) ;;
  do _ <- mapM (fun g => opt_panic (an_find g (o_omim o))) (t_omim t) ;;
  do _ <- mapM (fun g => opt_panic (an_find g (o_orpha o))) (t_orpha t) ;;
  Ok (t_id t, t_name t, boolN (t_obsolete t), optN (t_repl t),
      optN (option_map t_id (replaced_by o t)),
      t_parents t, t_children t, t_allp t,
      t_genes t, t_omim t, t_orpha t, t_ic t,
      boolN (is_modifier o t), categories o t).

Definition dannot : Type := N * list N * list N.

(* record dump; to_hpo_set(..).iter() resolves the record's term ids *)
Definition dump_annot (o : onto) (r : annot) : res dannot :=
  do _ <- resolve_all o (a_hpos r) ;; Ok (a_id r, a_name r, a_hpos r).

Definition donto : Type :=
  (N * N * N) * list dterm * list dannot * list dannot * list dannot * list N * list N * N.

Definition dump_onto (o : onto) : res donto :=
  do ts <- mapM (dump_term o) (sort_by t_id (ar_terms (o_arena o))) ;;
  do gs <- mapM (dump_annot o) (sort_by a_id (o_genes o)) ;;
  do ms <- mapM (dump_annot o) (sort_by a_id (o_omim o)) ;;
  do rs <- mapM (dump_annot o) (sort_by a_id (o_orpha o)) ;;
  Ok (o_version o, ts, gs, ms, rs, o_cat o, o_mod o, ar_len (o_arena o)).
