(* HSet.v — model of src/set.rs (HpoSet): a group of term ids of one ontology *)
From HpoV Require Import Gen.Consts Model.Base Model.Group Model.Onto Model.Query.

(* ontology.get(id).expect("HpoTermId must be in Ontology") *)
Definition hs_term (o : onto) (id : N) : res term := opt_panic (o_get id o).

(* set.rs child_nodes: members that are not an ancestor of any member *)
Definition hs_child_nodes (o : onto) (s : group) : res group :=
  do keep <- mapM (fun t1 =>
               do flags <- mapM (fun t2 => do t <- hs_term o t2 ;; Ok (negb (g_contains t1 (t_allp t)))) s ;;
               Ok (t1, forallb (fun b => b) flags)) s ;;
  Ok (g_from_list (map fst (filter snd keep))).

(* set.rs without_modifier / remove_modifier: both iterate resolved terms (self.iter()) *)
Definition hs_without_modifier (o : onto) (s : group) : res group :=
  do ts <- resolve_all o s ;;
  Ok (g_from_list (map t_id (filter (fun t => negb (is_modifier o t)) ts))).
Definition hs_remove_modifier := hs_without_modifier.

(* set.rs without_obsolete / remove_obsolete *)
Definition hs_without_obsolete (o : onto) (s : group) : res group :=
  do ts <- mapM (hs_term o) s ;;
  Ok (g_from_list (map t_id (filter (fun t => negb (t_obsolete t)) ts))).
Definition hs_remove_obsolete := hs_without_obsolete.

(* set.rs with_replaced_obsolete / replace_obsolete *)
Definition hs_with_replaced (o : onto) (s : group) : res group :=
  do ts <- mapM (hs_term o) s ;;
  Ok (g_from_list (map (fun t => match t_repl t with Some r => r | None => t_id t end) ts)).
Definition hs_replace_obsolete := hs_with_replaced.

(* set.rs gene_ids / omim_disease_ids / orpha_disease_ids: union over the members *)
Definition hs_annot_ids (k : kind) (o : onto) (s : group) : res (list N) :=
  do ts <- mapM (hs_term o) s ;;
  Ok (fold_left (fun acc t => g_union acc (t_annots k t)) ts []).

(* set.rs categories: count per category over resolved members *)
Definition hs_categories (o : onto) (s : group) : res (list (N * N)) :=
  do ts <- resolve_all o s ;;
  let all := concat (map (categories o) ts) in
  Ok (map (fun c => (c, Nlen (filter (N.eqb c) all))) (g_from_list all)).

Section IC.
  Variable icf : N -> N -> res N.
  (* set.rs information_content: gene and omim only *)
  Definition hs_information_content (o : onto) (s : group) : res (N * N) :=
    do gs <- hs_annot_ids KGene o s ;;
    do ms <- hs_annot_ids KOmim o s ;;
    do g <- icf (Nlen (o_genes o)) (Nlen gs) ;;
    do m <- icf (Nlen (o_omim o)) (Nlen ms) ;;
    Ok (g, m).
End IC.
