(* Text.v — model of the JAX text loaders: src/parser/hp_obo.rs, src/parser.rs (gene_to_hpo,
   disease_to_hpo, the two load_from_jax_files pipelines).  Files are byte strings (valid UTF-8,
   as fs::read_to_string / BufRead::lines require); the str functions used by the parsers are
   modelled at byte level:
     split("\n\n"), strip_prefix, starts_with, lines (\n or \r\n terminated), split_once(": " | ' ' | ':'),
     split('\t'), splitn(5, '\t'), trim (ASCII white space only — the generator emits no other
     white space at line ends), str::parse::<u32 | u16 | u8>. *)
From HpoV Require Import Gen.Consts Model.Base Model.Group Model.Onto Model.Binary Model.TermId.

Definition NL : N := 10.
Definition CR : N := 13.
Definition TAB : N := 9.

(* ---------------- str functions ---------------- *)

(* str::split("\n\n"): leftmost, non-overlapping *)
Fixpoint split_blank (s : bytes) (cur : bytes) : list bytes :=
  match s with
  | [] => [rev cur]
  | c :: t =>
      match t with
      | c2 :: t2 => if (c =? NL) && (c2 =? NL) then rev cur :: split_blank t2 []
                    else split_blank t (c :: cur)
      | [] => split_blank t (c :: cur)
      end
  end.

Fixpoint strip_prefix (p s : bytes) : option bytes :=
  match p, s with
  | [], _ => Some s
  | x :: p', y :: s' => if x =? y then strip_prefix p' s' else None
  | _ :: _, [] => None
  end.

Definition starts_with (p s : bytes) : bool := match strip_prefix p s with Some _ => true | None => false end.

(* split on one byte *)
Fixpoint split_byte (b : N) (s : bytes) (cur : bytes) : list bytes :=
  match s with
  | [] => [rev cur]
  | c :: t => if c =? b then rev cur :: split_byte b t [] else split_byte b t (c :: cur)
  end.

Definition strip_cr (l : bytes) : bytes :=
  match rev l with
  | c :: r => if c =? CR then rev r else l
  | [] => l
  end.

(* str::lines / BufRead::lines: pieces between \n, a final empty piece dropped, one trailing \r removed *)
Definition lines (s : bytes) : list bytes :=
  let ps := split_byte NL s [] in
  let ps := match rev ps with
            | [] :: r => rev r
            | _ => ps
            end in
  map strip_cr ps.

(* split_once on a one-byte or two-byte separator *)
Fixpoint split_once1 (b : N) (s : bytes) (cur : bytes) : option (bytes * bytes) :=
  match s with
  | [] => None
  | c :: t => if c =? b then Some (rev cur, t) else split_once1 b t (c :: cur)
  end.

Fixpoint split_once2 (b1 b2 : N) (s : bytes) (cur : bytes) : option (bytes * bytes) :=
  match s with
  | [] => None
  | c :: t =>
      match t with
      | c2 :: t2 => if (c =? b1) && (c2 =? b2) then Some (rev cur, t2) else split_once2 b1 b2 t (c :: cur)
      | [] => None
      end
  end.

(* splitn(n, '\t'): at most n pieces, the last one takes the rest *)
Fixpoint splitn_tab (n : nat) (s : bytes) (cur : bytes) : list bytes :=
  match n with
  | O => []
  | S O => [rev cur ++ s]
  | S n' =>
      match s with
      | [] => [rev cur]
      | c :: t => if c =? TAB then rev cur :: splitn_tab n' t [] else splitn_tab n t (c :: cur)
      end
  end.

Definition is_ws (c : N) : bool := (c =? 32) || ((9 <=? c) && (c <=? 13)).
Fixpoint trim_start (s : bytes) : bytes :=
  match s with c :: t => if is_ws c then trim_start t else s | [] => [] end.
Definition trim (s : bytes) : bytes := rev (trim_start (rev (trim_start s))).

(* str::parse::<uN>: '+'? digit+, value <= max *)
Fixpoint parse_digits_max (mx : N) (l : bytes) (acc : N) : option N :=
  match l with
  | [] => Some acc
  | d :: t =>
      if (48 <=? d) && (d <=? 57) then
        let acc' := acc * 10 + (d - 48) in
        if mx <? acc' then None else parse_digits_max mx t acc'
      else None
  end.
Definition parse_uint (mx : N) (s : bytes) : option N :=
  match s with
  | [] => None
  | 43 :: [] => None
  | 43 :: t => parse_digits_max mx t 0
  | _ => parse_digits_max mx s 0
  end.

(* &s[a..b] on a str: panics off a char boundary or out of range *)
Definition str_slice (s : bytes) (a b : N) : res bytes :=
  if (b <=? Nlen s) && (a <=? b) && is_char_boundary s a && is_char_boundary s b
  then Ok (firstn (nat_of (b - a)) (skipn (nat_of a) s)) else Panic.

(* ---------------- hp_obo.rs ---------------- *)

Definition s_id : bytes := [105; 100].                                        (* "id" *)
Definition s_name : bytes := [110; 97; 109; 101].                            (* "name" *)
Definition s_is_obsolete : bytes := [105; 115; 95; 111; 98; 115; 111; 108; 101; 116; 101].
Definition s_replaced_by : bytes := [114; 101; 112; 108; 97; 99; 101; 100; 95; 98; 121].
Definition s_true : bytes := [116; 114; 117; 101].
Definition s_NOT : bytes := [78; 79; 84].
Definition s_OMIM : bytes := [79; 77; 73; 77].
Definition s_ORPHA : bytes := [79; 82; 80; 72; 65].
Definition s_hash : bytes := [35].
Definition s_ncbi_gene_id : bytes := [110; 99; 98; 105; 95; 103; 101; 110; 101; 95; 105; 100].
Definition s_hpo_id : bytes := [104; 112; 111; 95; 105; 100].

(* version_from_obo (hp_obo.rs:62-78) *)
Definition version_of_line (line : bytes) : res (option (N * N * N)) :=
  match strip_prefix OBO_VERSION_PREFIX line with
  | None => Ok None
  | Some v =>
      if Nlen v =? 10 then
        do y <- str_slice v 0 4 ;;
        do m <- str_slice v 5 7 ;;
        do d <- str_slice v 8 10 ;;
        let num mx x := match parse_uint mx x with Some n => n | None => 0 end in
        Ok (Some (num 65535 y, num 255 m, num 255 d))
      else Ok None
  end.

Fixpoint version_from_obo (ls : list bytes) : res (option (N * N * N)) :=
  match ls with
  | [] => Ok None
  | l :: t => do r <- version_of_line l ;; match r with Some v => Ok (Some v) | None => version_from_obo t end
  end.

(* term_from_obo (hp_obo.rs:80-106): every line must contain ": " (parse_line expects it) *)
Definition obo_fields : Type := option bytes * option bytes * option bytes * option bytes.

Definition term_fields (ls : list bytes) : res obo_fields :=
  foldM (fun (f : obo_fields) (line : bytes) =>
           let '(id, name, obs, repl) := f in
           match split_once2 58 32 line [] with
           | None => Panic                        (* expect("unable to parse line") *)
           | Some (k, v) =>
               if list_eqb k s_id then Ok (Some v, name, obs, repl)
               else if list_eqb k s_name then Ok (id, Some v, obs, repl)
               else if list_eqb k s_is_obsolete then Ok (id, name, Some v, repl)
               else if list_eqb k s_replaced_by then Ok (id, name, obs, Some v)
               else Ok f
           end) ls (None, None, None, None).

Definition term_from_obo (stanza : bytes) : res (option term) :=
  do f <- term_fields (lines stanza) ;;
  let '(id, name, obs, repl) := f in
  match id, name with
  | Some id, Some name =>
      match parse_id id with
      | Ok tid =>                               (* HpoTermInternal::try_new(..).unwrap() *)
          let obsolete := match obs with Some v => list_eqb v s_true | None => false end in
          match repl with
          | None => Ok (Some (set_flags obsolete None (new_term name tid)))
          | Some r => match parse_id r with
                      | Ok rid => Ok (Some (set_flags obsolete (Some rid) (new_term name tid)))
                      | _ => Panic             (* expect("Invalid replacement") *)
                      end
          end
      | _ => Panic
      end
  | _, _ => Ok None
  end.

(* add_connections (hp_obo.rs:108-120) *)
Definition connections_of (stanza : bytes) (id : N) : res (list (N * N)) :=
  foldM (fun acc line =>
           match strip_prefix OBO_ISA_PREFIX line with
           | None => Ok acc
           | Some v => match split_once1 32 v [] with
                       | None => Ok acc                      (* logged, skipped *)
                       | Some (tid, _) => match parse_id tid with
                                          | Ok p => Ok (acc ++ [(id, p)])
                                          | _ => Panic       (* unwrap() *)
                                          end
                       end
           end) (lines stanza) [].

Definition term_header_nl : bytes := OBO_TERM_HEADER ++ [NL].

(* read_obo_file (hp_obo.rs:27-60) *)
Definition read_obo (content : bytes) (o : onto) : res onto :=
  do r <- foldM (fun (st : onto * list (N * N)) (chunk : bytes) =>
             let (o1, conns) := st in
             match strip_prefix term_header_nl chunk with
             | Some stanza =>
                 do t <- term_from_obo stanza ;;
                 match t with
                 | Some raw =>
                     do o2 <- b_add_term raw o1 ;;
                     do cs <- connections_of stanza (t_id raw) ;;
                     Ok (o2, conns ++ cs)
                 | None => Ok st
                 end
             | None =>
                 if starts_with OBO_HEADER_START chunk then
                   do v <- version_from_obo (lines chunk) ;;
                   Ok (set_version (match v with Some x => x | None => (0, 0, 0) end) o1, conns)
                 else Ok st
             end) (split_blank content []) (o, []) ;;
  let (o1, conns) := r : onto * list (N * N) in
  do a <- foldM (fun a (cp : N * N) => b_add_parent_unchecked (snd cp) (fst cp) a) conns (o_arena o1) ;;
  Ok (set_arena a o1).

(* ---------------- parser.rs gene_to_hpo ---------------- *)

(* ParsedGene::try_new: the term id first, then the gene id *)
Definition parsed_gene (ncbi symbol hpo : bytes) : res (N * bytes * N) :=
  do h <- parse_id hpo ;;
  match parse_uint U32_MAX ncbi with
  | Some g => Ok (g, symbol, h)
  | None => Err ParseIntError
  end.

Definition genes_to_phenotype_line (line : bytes) : res (N * bytes * N) :=
  match split_byte TAB line [] with
  | ncbi :: symbol :: hpo :: _ => parsed_gene ncbi symbol hpo
  | _ => Err InvalidInput
  end.

Definition phenotype_to_gene_line (line : bytes) : res (N * bytes * N) :=
  match split_byte TAB line [] with
  | hpo :: _ :: ncbi :: symbol :: _ => parsed_gene ncbi symbol hpo
  | _ => Err InvalidInput
  end.

(* the first line (read_line: up to and including the first \n) must look like a header *)
Definition split_first_line (s : bytes) : bytes * bytes :=
  match split_once1 NL s [] with
  | Some (a, b) => (a, b)
  | None => (s, [])
  end.

Definition parse_gene_file (transitive : bool) (content : bytes) (o : onto) : res onto :=
  let (hdr, rest) := split_first_line content in
  if negb (starts_with s_hash hdr || starts_with s_ncbi_gene_id hdr || starts_with s_hpo_id hdr)
  then Err InvalidInput
  else
    foldM (fun o1 line =>
             do g <- (if transitive then phenotype_to_gene_line line else genes_to_phenotype_line line) ;;
             let '(gid, symbol, hpo) := g in
             b_annotate KGene gid symbol hpo o1)
          (lines rest) o.

(* ---------------- parser.rs disease_to_hpo ---------------- *)

(* parse_disease_components: Ok None for a NOT row *)
Definition disease_components (line : bytes) : res (option (bytes * bytes * N)) :=
  match splitn_tab 5 (trim line) [] with
  | id_col :: rest =>
      match split_once1 58 id_col [] with
      | None => Err InvalidInput
      | Some (_, did) =>
          match rest with
          | [] => Err InvalidInput
          | name :: rest2 =>
              match rest2 with
              | [] => Err InvalidInput                            (* no qualifier column: no hpo id either *)
              | q :: rest3 =>
                  if list_eqb q s_NOT then Ok None
                  else match rest3 with
                       | [] => Err InvalidInput
                       | hpo :: _ => do h <- parse_id hpo ;; Ok (Some (did, name, h))
                       end
              end
          end
      end
  | [] => Err InvalidInput
  end.

Definition parse_hpoa (content : bytes) (o : onto) : res onto :=
  foldM (fun o1 line =>
           let k := if starts_with s_OMIM line then Some KOmim
                    else if starts_with s_ORPHA line then Some KOrpha else None in
           match k with
           | None => Ok o1
           | Some k =>
               do c <- disease_components line ;;
               match c with
               | None => Ok o1
               | Some (did, name, h) =>
                   match parse_uint U32_MAX did with
                   | Some d => b_annotate k d name h o1
                   | None => Err ParseIntError
                   end
               end
           end) (lines content) o.

(* ---------------- the two pipelines (parser.rs:529-557) ---------------- *)

Section Load.
  Variable icf : N -> N -> res N.

  Definition load_jax (transitive : bool) (obo genes hpoa : bytes) : res onto :=
    do o1 <- read_obo obo onto_new ;;
    do o2 <- b_connect_all_terms o1 ;;
    do o3 <- parse_gene_file transitive genes o2 ;;
    do o4 <- parse_hpoa hpoa o3 ;;
    do o5 <- b_calculate_ic icf o4 ;;
    b_build_with_defaults o5.
End Load.
