(* Binary.v — the binary format: Ontology::as_bytes (src/ontology.rs:842-892, 1154-1166),
   HpoTermInternal::as_bytes / parents_as_byte (src/term/internal.rs:167-226),
   Gene::as_bytes / TryFrom<&[u8]> (src/annotations/gene.rs:150-260),
   Disease::as_bytes / from_bytes (src/annotations/disease.rs:27-140),
   Ontology::from_bytes (src/ontology.rs:442-495), parser/binary{.rs,/ontology.rs,/term.rs},
   Builder::add_*_from_bytes (src/ontology/builder.rs).
   Every slice and index is explicit: it is [Panic] when Rust's bounds check fails. *)
From HpoV Require Import Gen.Consts Model.Base Model.Group Model.Onto.

Definition bytes := list N.

(* ---------------- slices ---------------- *)

(* &b[i..] *)
Definition slice_from (b : bytes) (i : N) : res bytes :=
  if Nlen b <? i then Panic else Ok (skipn (nat_of i) b).
(* &b[i..j] *)
Definition slice (b : bytes) (i j : N) : res bytes :=
  if (j <? i) || (Nlen b <? j) then Panic else Ok (firstn (nat_of (j - i)) (skipn (nat_of i) b)).
(* b[i] *)
Definition idx (b : bytes) (i : N) : res N := opt_panic (nth_error b (nat_of i)).

Definition be32 (a b c d : N) : N := ((a * 256 + b) * 256 + c) * 256 + d.

(* u32::from_be_bytes([b[i], b[i+1], b[i+2], b[i+3]]) *)
Definition u32_at (b : bytes) (i : N) : res N :=
  do x0 <- idx b i ;; do x1 <- idx b (i + 1) ;; do x2 <- idx b (i + 2) ;; do x3 <- idx b (i + 3) ;;
  Ok (be32 x0 x1 x2 x3).

(* lib.rs:84-86 u32_from_bytes(&b[i..]) *)
Definition u32_from (b : bytes) (i : N) : res N :=
  do s <- slice_from b i ;; u32_at s 0.

Definition to_be32 (n : N) : bytes :=
  [ (n / 16777216) mod 256; (n / 65536) mod 256; (n / 256) mod 256; n mod 256 ].

(* ---------------- UTF-8 (String::from_utf8, str::is_char_boundary) ---------------- *)

Definition is_cont (b : N) : bool := (128 <=? b) && (b <=? 191).

(* Rust's validation: shortest form, no surrogates, at most U+10FFFF *)
Fixpoint utf8_valid (l : bytes) : bool :=
  match l with
  | [] => true
  | b0 :: t =>
      if b0 <? 128 then utf8_valid t
      else if (194 <=? b0) && (b0 <=? 223) then
        match t with b1 :: t' => is_cont b1 && utf8_valid t' | _ => false end
      else if (224 <=? b0) && (b0 <=? 239) then
        match t with
        | b1 :: b2 :: t' =>
            (if b0 =? 224 then (160 <=? b1) && (b1 <=? 191)
             else if b0 =? 237 then (128 <=? b1) && (b1 <=? 159)
             else is_cont b1)
            && is_cont b2 && utf8_valid t'
        | _ => false
        end
      else if (240 <=? b0) && (b0 <=? 244) then
        match t with
        | b1 :: b2 :: b3 :: t' =>
            (if b0 =? 240 then (144 <=? b1) && (b1 <=? 191)
             else if b0 =? 244 then (128 <=? b1) && (b1 <=? 143)
             else is_cont b1)
            && is_cont b2 && is_cont b3 && utf8_valid t'
        | _ => false
        end
      else false
  end.

(* str::is_char_boundary(i) *)
Definition is_char_boundary (s : bytes) (i : N) : bool :=
  if i =? 0 then true
  else match nth_error s (nat_of i) with
       | None => i =? Nlen s
       | Some b => negb (is_cont b)
       end.

(* min(len, limit), then back off to a char boundary (fix: commit "cut over-long ... names") *)
Fixpoint back_off (s : bytes) (fuel : nat) (i : N) : N :=
  match fuel with
  | O => i
  | S f => if is_char_boundary s i then i else back_off s f (i - 1)
  end.
Definition cut_len (limit : N) (s : bytes) : N := back_off s 4 (N.min (Nlen s) limit).

(* ---------------- writer ---------------- *)

Definition group_bytes (g : group) : bytes := concat (map to_be32 g).

(* internal.rs as_bytes *)
Definition enc_term (t : term) : bytes :=
  let nl := cut_len TERM_NAME_LIMIT (t_name t) in
  let size := nl + 4 + 4 + 1 + 1 + 4 in
  to_be32 size ++ to_be32 (t_id t) ++ [nl] ++ firstn (nat_of nl) (t_name t)
  ++ [boolN (t_obsolete t)] ++ to_be32 (match t_repl t with Some r => r | None => 0 end).

(* internal.rs parents_as_byte *)
Definition enc_parents (t : term) : bytes :=
  to_be32 (Nlen (t_parents t)) ++ to_be32 (t_id t) ++ group_bytes (t_parents t).

(* gene.rs as_bytes *)
Definition enc_gene (r : annot) : bytes :=
  let nl := cut_len GENE_NAME_LIMIT (a_name r) in
  let size := 4 + 4 + 1 + nl + 4 + Nlen (a_hpos r) * 4 in
  to_be32 size ++ to_be32 (a_id r) ++ [nl] ++ firstn (nat_of nl) (a_name r)
  ++ to_be32 (Nlen (a_hpos r)) ++ group_bytes (a_hpos r).

(* disease.rs as_bytes *)
Definition enc_disease (r : annot) : bytes :=
  let nl := Nlen (a_name r) in
  let size := 4 + 4 + 4 + nl + 4 + Nlen (a_hpos r) * 4 in
  to_be32 size ++ to_be32 (a_id r) ++ to_be32 nl ++ a_name r
  ++ to_be32 (Nlen (a_hpos r)) ++ group_bytes (a_hpos r).

Definition section (body : bytes) : bytes := to_be32 (Nlen body) ++ body.

(* ontology.rs metadata_as_bytes *)
Definition enc_meta (o : onto) : bytes :=
  let '(y, m, d) := o_version o in
  MAGIC_WRITER ++ [EMIT_VERSION] ++ [ (y / 256) mod 256; y mod 256; m; d ].

(* ontology.rs as_bytes.  Records inside the three annotation sections are emitted in HashMap
   order by the code; [order] fixes an order (the observation sorts records by id on both sides) *)
Definition encode_with (order : list annot -> list annot) (o : onto) : bytes :=
  enc_meta o
  ++ section (concat (map enc_term (ar_terms (o_arena o))))
  ++ section (concat (map enc_parents (ar_terms (o_arena o))))
  ++ section (concat (map enc_gene (order (o_genes o))))
  ++ section (concat (map enc_disease (order (o_omim o))))
  ++ section (concat (map enc_disease (order (o_orpha o)))).

Definition encode (o : onto) : bytes := encode_with (sort_by a_id) o.

(* ---------------- reader ---------------- *)

Inductive bversion := V1 | V2 | V3.

(* parser/binary/ontology.rs version *)
Definition bin_version (b : bytes) : res (bytes * bversion) :=
  if Nlen b <? MIN_LEN then Err ParseBinaryError
  else if list_eqb (firstn 3 b) MAGIC_READER then
    match nth_error b 3 with
    | Some v =>
        if (v =? 3) && mem 3 ACCEPTED_VERSIONS then Ok (skipn 4 b, V3)
        else if (v =? 2) && mem 2 ACCEPTED_VERSIONS then Ok (skipn 4 b, V2)
        else Err NotImplemented
    | None => Panic
    end
  else Ok (b, V1).

(* parser/binary/term.rs *)
Definition term_v1 (b : bytes) : res term :=
  if Nlen b <? 9 then Err ParseBinaryError
  else
    do total <- u32_at b 0 ;;
    do id <- u32_at b 4 ;;
    do nl <- idx b 8 ;;
    if Nlen b <? 9 + nl then Err ParseBinaryError
    else
      do name <- slice b 9 total ;;
      if utf8_valid name then Ok (new_term name id) else Err ParseBinaryError.

Definition term_v2 (b : bytes) : res term :=
  if Nlen b <? 14 then Err ParseBinaryError
  else
    do id <- u32_at b 4 ;;
    do nl <- idx b 8 ;;
    if Nlen b <? 14 + nl then Err ParseBinaryError
    else
      do name <- slice b 9 (9 + nl) ;;
      if utf8_valid name then
        do fl <- idx b (9 + nl) ;;
        do repl <- u32_at b (10 + nl) ;;
        Ok (set_flags (N.odd fl) (if repl =? 0 then None else Some repl) (new_term name id))
      else Err ParseBinaryError.

(* parser/binary.rs BinaryTermBuilder + builder.rs add_terms_from_bytes *)
Fixpoint read_terms (fuel : nat) (v : bversion) (b : bytes) (a : arena) : res arena :=
  match fuel with
  | O => Fuel
  | S f =>
      match b with
      | [] => Ok a
      | _ =>
          if Nlen b <=? 4 then Panic            (* u32_prefix: assert!(self.len() > 4) *)
          else
            do tl <- u32_at b 0 ;;
            if Nlen b <? tl then Panic          (* assert!(bytes.len() >= term_len) *)
            else
              match (match v with V1 => term_v1 b | _ => term_v2 b end) with
              | Ok t => do a' <- ar_insert t a ;; read_terms f v (skipn (nat_of tl) b) a'
              | Err _ => Panic                  (* expect("Invalid byte input") *)
              | Panic => Panic
              | Fuel => Fuel
              end
      end
  end.

(* builder.rs add_parent_from_bytes *)
Fixpoint read_parent_ids (n : nat) (b : bytes) (i : N) (term : N) (a : arena) : res (arena * N) :=
  match n with
  | O => Ok (a, i)
  | S n' =>
      do p <- u32_at b i ;;
      do a' <- b_add_parent_unchecked p term a ;;
      read_parent_ids n' b (i + 4) term a'
  end.

Fixpoint read_parents (fuel : nat) (b : bytes) (i : N) (a : arena) : res arena :=
  match fuel with
  | O => Fuel
  | S f =>
      if i =? Nlen b then Ok a
      else
        do np <- u32_from b i ;;
        do term <- u32_at b (i + 4) ;;
        do r <- read_parent_ids (nat_of np) b (i + 8) term a ;;
        let (a', i') := r : arena * N in
        read_parents f b i' a'
  end.

Fixpoint read_ids (n : nat) (b : bytes) (i : N) : res (list N) :=
  match n with
  | O => Ok []
  | S n' => do x <- u32_at b i ;; do r <- read_ids n' b (i + 4) ;; Ok (x :: r)
  end.

(* gene.rs TryFrom<&[u8]> for Gene *)
Definition gene_of_bytes (b : bytes) : res annot :=
  if Nlen b <? 13 then Err ParseBinaryError
  else
    do total <- u32_from b 0 ;;
    if negb (Nlen b =? total) then Err ParseBinaryError
    else
      do id <- u32_from b 4 ;;
      do nl <- idx b 8 ;;
      if Nlen b <? 13 + nl then Err ParseBinaryError
      else
        do name <- slice b 9 (9 + nl) ;;
        if negb (utf8_valid name) then Err ParseBinaryError
        else
          do nt <- u32_from b (9 + nl) ;;
          if Nlen b <? 13 + nl + nt * 4 then Err ParseBinaryError
          else
            do ids <- read_ids (nat_of nt) b (13 + nl) ;;
            let last := 13 + nl + nt * 4 in
            if (last =? total) && (last =? Nlen b)
            then Ok (mkAnnot id name (g_from_list ids))
            else Err ParseBinaryError.

(* disease.rs Disease::from_bytes *)
Definition disease_of_bytes (b : bytes) : res annot :=
  if Nlen b <? 16 then Err ParseBinaryError
  else
    do total <- u32_from b 0 ;;
    if negb (Nlen b =? total) then Err ParseBinaryError
    else
      do id <- u32_from b 4 ;;
      do nl <- u32_from b 8 ;;
      if Nlen b <? 16 + nl then Err ParseBinaryError
      else
        do name <- slice b 12 (12 + nl) ;;
        if negb (utf8_valid name) then Err ParseBinaryError
        else
          do nt <- u32_from b (12 + nl) ;;
          if Nlen b <? 16 + nl + nt * 4 then Err ParseBinaryError
          else
            do ids <- read_ids (nat_of nt) b (16 + nl) ;;
            let last := 16 + nl + nt * 4 in
            if (last =? total) && (last =? Nlen b)
            then Ok (mkAnnot id name (g_from_list ids))
            else Err ParseBinaryError.

(* builder.rs add_genes_from_bytes / add_omim_disease_from_bytes / add_orpha_disease_from_bytes *)
Fixpoint read_records (fuel : nat) (k : kind) (b : bytes) (i : N) (o : onto) : res onto :=
  match fuel with
  | O => Fuel
  | S f =>
      if Nlen b <=? i then Ok o
      else
        do rl <- u32_from b i ;;
        do rb <- slice b i (i + rl) ;;
        do r <- (match k with KGene => gene_of_bytes rb | _ => disease_of_bytes rb end) ;;
        do a <- foldM (fun a t => link (link_fuel a) k a t (a_id r)) (a_hpos r) (o_arena o) ;;
        read_records f k b (i + rl) (set_records k (an_put r (o_records k o)) (set_arena a o))
  end.

Section Decode.
  (* the reader of the parent section is a parameter so that an evaluation-friendly variant (read_parents_g
     below, proved equal in Proofs/DecodeGP.v) can be plugged in; [decode] is the instance with read_parents *)
  Variable rp : nat -> bytes -> N -> arena -> res arena.
  Variable icf : N -> N -> res N.

  (* ontology.rs from_bytes *)
  Definition decode_with (input : bytes) : res onto :=
    do bv <- bin_version input ;;
    let (b, v) := bv : bytes * bversion in
    (* builder.rs hpo_version_from_bytes *)
    do vo <- (match v with
              | V1 => Ok ((0, 0, 0), 0)
              | _ => if Nlen b <? 4 then Err ParseBinaryError
                     else do y0 <- idx b 0 ;; do y1 <- idx b 1 ;; do m <- idx b 2 ;; do d <- idx b 3 ;;
                          Ok ((y0 * 256 + y1, m, d), 4)
              end) ;;
    let (ver, offset) := vo : (N * N * N) * N in
    let o0 := set_version ver onto_new in
    let fuel := S (length b) in
    (* terms *)
    let start := offset in
    do len <- u32_from b start ;;
    let stop := start + 4 + len in
    do sec <- slice b (start + 4) stop ;;
    do a1 <- read_terms fuel v sec (o_arena o0) ;;
    let start := start + len + 4 in
    (* parents *)
    do len <- u32_from b start ;;
    let stop := stop + 4 + len in
    do sec <- slice b (start + 4) stop ;;
    do a2 <- rp fuel sec 0 a1 ;;
    do a3 <- connect_all (default_fuel a2) a2 ;;
    let o3 := set_arena a3 o0 in
    let start := start + len + 4 in
    (* genes *)
    do len <- u32_from b start ;;
    let stop := stop + 4 + len in
    do sec <- slice b (start + 4) stop ;;
    do o4 <- read_records fuel KGene sec 0 o3 ;;
    let start := start + len + 4 in
    (* omim *)
    do len <- u32_from b start ;;
    let stop := stop + 4 + len in
    do sec <- slice b (start + 4) stop ;;
    do o5 <- read_records fuel KOmim sec 0 o4 ;;
    let start := start + len + 4 in
    (* orpha *)
    do r6 <- (match v with
              | V3 =>
                  do len <- u32_from b start ;;
                  let stop := stop + 4 + len in
                  do sec <- slice b (start + 4) stop ;;
                  do o6 <- read_records fuel KOrpha sec 0 o5 ;;
                  Ok (o6, start + len + 4)
              | _ => Ok (o5, start)
              end) ;;
    let (o6, start) := r6 : onto * N in
    if start =? Nlen b then
      do o7 <- b_calculate_ic icf o6 ;; b_build_with_defaults o7
    else Err ParseBinaryError.
End Decode.

Definition decode (icf : N -> N -> res N) (input : bytes) : res onto := decode_with read_parents icf input.

(* read_parents with a bounds test in front of the parent loop: when the announced number of parents
   cannot fit into the rest of the section the loop `for _ in 0..n_parents` indexes past the end and
   panics (add_parent_from_bytes: &bytes[idx..idx + 4]); the test returns that outcome without first
   building the unary number [nat_of np] (up to 2^32 constructors on damaged input).
   Proofs/DecodeGP.v: read_parents_g = read_parents, decode_g = decode. *)
Fixpoint read_parents_g (fuel : nat) (b : bytes) (i : N) (a : arena) : res arena :=
  match fuel with
  | O => Fuel
  | S f =>
      if i =? Nlen b then Ok a
      else
        do np <- u32_from b i ;;
        do term <- u32_at b (i + 4) ;;
        if Nlen b <? i + 8 + 4 * np then Panic
        else
          do r <- read_parent_ids (nat_of np) b (i + 8) term a ;;
          let (a', i') := r : arena * N in
          read_parents_g f b i' a'
  end.

Definition decode_g (icf : N -> N -> res N) (input : bytes) : res onto := decode_with read_parents_g icf input.

