(* Combine.v — model of src/similarity.rs: SimilarityCombiner (row_maxes, col_maxes, calculate),
   StandardCombiner (funSimAvg, funSimMax, BMA), GroupSimilarity::calculate, CachedSimilarity.
   Written over an abstract number structure so that the same definitions are (1) proved about in
   general and (2) executed bit-exactly on Flocq binary32. *)
From HpoV Require Import Model.Base Model.Matrix.

Inductive combiner := FunSimAvg | FunSimMax | Bma.

Section Num.
  Variable F : Type.
  Variable fadd fdiv fmax : F -> F -> F.
  Variable fgt : F -> F -> bool.
  Variable fzero fnzero ftwo : F.
  Variable f_of_u16 : N -> F.

  (* `iter().sum::<f32>()` folds from -0.0 *)
  Definition sumF (l : list F) : F := fold_left fadd l fnzero.

  (* row.reduce(|a, b| if a > b { a } else { b }).expect("A matrix must contain values") *)
  Definition reduce_max (l : list F) : res F :=
    match l with
    | [] => Panic
    | x :: t => Ok (fold_left (fun a b => if fgt a b then a else b) t x)
    end.

  (* similarity.rs:117-143 *)
  Definition row_maxes (m : matrix F) : res (list F) :=
    do rows <- m_rows_iter m ;; mapM reduce_max rows.
  Definition col_maxes (m : matrix F) : res (list F) := mapM reduce_max (m_cols_iter m).

  (* usize_to_f32: try_into::<u16>().expect("Matrix too large").into() *)
  Definition usize_to_f (n : nat) : res F :=
    let x := N.of_nat n in if 65535 <? x then Panic else Ok (f_of_u16 x).

  (* similarity.rs:231-268 *)
  Definition std_combine (c : combiner) (m : matrix F) : res F :=
    do rows <- usize_to_f (m_rows m) ;;
    do cols <- usize_to_f (m_cols m) ;;
    do rm <- row_maxes m ;;
    do cm <- col_maxes m ;;
    match c with
    | FunSimAvg =>
        let nom := fdiv (sumF rm) rows in
        let nom := fadd nom (fdiv (sumF cm) cols) in
        Ok (fdiv nom ftwo)
    | FunSimMax => Ok (fmax (fdiv (sumF rm) rows) (fdiv (sumF cm) cols))
    | Bma => Ok (fdiv (fadd (sumF rm) (sumF cm)) (fadd rows cols))
    end.

  (* similarity.rs:104-110 SimilarityCombiner::calculate *)
  Definition combiner_calculate (c : combiner) (m : matrix F) : res F :=
    if m_is_empty m then Ok fzero else std_combine c m.

  (* ---------------- GroupSimilarity::calculate (similarity.rs:364-400) ---------------- *)

  (* the pairwise loop `for t1 in a { for t2 in b { v.push(sim(t1, t2)) } }` with a similarity that
     carries state [S] (the cache of CachedSimilarity; unit for a plain similarity) *)
  Section Group.
    Variable S : Type.
    Variable sim : S -> N -> N -> S * F.

    Definition pair_loop (a b : list N) (s : S) : S * list F :=
      fold_left (fun (st : S * list F) t1 =>
                   fold_left (fun (st2 : S * list F) t2 =>
                                let (s2, acc) := st2 in
                                let (s3, v) := sim s2 t1 t2 in (s3, acc ++ [v]))
                             b st)
                a (s, []).

    Definition group_calculate (c : combiner) (a b : list N) (s : S) : S * res F :=
      let (s', v) := pair_loop a b s in
      (s', combiner_calculate c (mkMat (length a) (length b) v)).
  End Group.

  (* a plain (stateless) similarity *)
  Definition plain_sim (f : N -> N -> F) (s : unit) (a b : N) : unit * F := (s, f a b).

  (* CachedSimilarity (similarity.rs:176-200): HashMap<(id, id), f32>, entry().or_insert_with() *)
  Definition cache := list (N * N * F).
  Fixpoint cache_find (a b : N) (c : cache) : option F :=
    match c with
    | [] => None
    | (x, y, v) :: t => if (x =? a) && (y =? b) then Some v else cache_find a b t
    end.
  Definition cached_sim (f : N -> N -> F) (c : cache) (a b : N) : cache * F :=
    match cache_find a b c with
    | Some v => (c, v)
    | None => let v := f a b in ((a, b, v) :: c, v)
    end.
End Num.
