(* Onto.v — model of the term arena, the Builder and the Ontology record.
   Transcribes src/ontology/termarena.rs, src/term/internal.rs,
   src/ontology/builder.rs and the constructors of src/ontology.rs
   (after the fix: commits recorded in known_findings.txt).
   HashMap / HashSet contents are kept in canonical (ascending id) order or in
   insertion order; every observation sorts by id, because Rust leaves their
   iteration order unspecified. *)
From HpoV Require Import Gen.Consts Model.Base Model.Group.

(* ---------------- terms (term/internal.rs:16-28) ---------------- *)

Record term := mkTerm {
  t_id : N;
  t_name : list N;            (* UTF-8 bytes *)
  t_parents : group;
  t_allp : group;             (* all_parents: the ancestor cache *)
  t_children : group;
  t_genes : list N;           (* HashSet<GeneId>, canonical ascending *)
  t_omim : list N;
  t_orpha : list N;
  t_ic : N * N * N;           (* f32 bit patterns: gene, omim, orpha *)
  t_obsolete : bool;
  t_repl : option N
}.

(* internal.rs:43-57 HpoTermInternal::new; InformationContent::default = 0.0 *)
Definition new_term (name : list N) (id : N) : term :=
  mkTerm id name [] [] [] [] [] [] (0, 0, 0) false None.

Definition set_parents (g : group) (t : term) : term :=
  mkTerm (t_id t) (t_name t) g (t_allp t) (t_children t) (t_genes t) (t_omim t) (t_orpha t) (t_ic t) (t_obsolete t) (t_repl t).
Definition set_allp (g : group) (t : term) : term :=
  mkTerm (t_id t) (t_name t) (t_parents t) g (t_children t) (t_genes t) (t_omim t) (t_orpha t) (t_ic t) (t_obsolete t) (t_repl t).
Definition set_children (g : group) (t : term) : term :=
  mkTerm (t_id t) (t_name t) (t_parents t) (t_allp t) g (t_genes t) (t_omim t) (t_orpha t) (t_ic t) (t_obsolete t) (t_repl t).
Definition set_ic (ic : N * N * N) (t : term) : term :=
  mkTerm (t_id t) (t_name t) (t_parents t) (t_allp t) (t_children t) (t_genes t) (t_omim t) (t_orpha t) ic (t_obsolete t) (t_repl t).
Definition set_flags (o : bool) (r : option N) (t : term) : term :=
  mkTerm (t_id t) (t_name t) (t_parents t) (t_allp t) (t_children t) (t_genes t) (t_omim t) (t_orpha t) (t_ic t) o r.

(* the three annotation kinds *)
Inductive kind := KGene | KOmim | KOrpha.

Definition t_annots (k : kind) (t : term) : list N :=
  match k with KGene => t_genes t | KOmim => t_omim t | KOrpha => t_orpha t end.
Definition set_annots (k : kind) (l : list N) (t : term) : term :=
  match k with
  | KGene => mkTerm (t_id t) (t_name t) (t_parents t) (t_allp t) (t_children t) l (t_omim t) (t_orpha t) (t_ic t) (t_obsolete t) (t_repl t)
  | KOmim => mkTerm (t_id t) (t_name t) (t_parents t) (t_allp t) (t_children t) (t_genes t) l (t_orpha t) (t_ic t) (t_obsolete t) (t_repl t)
  | KOrpha => mkTerm (t_id t) (t_name t) (t_parents t) (t_allp t) (t_children t) (t_genes t) (t_omim t) l (t_ic t) (t_obsolete t) (t_repl t)
  end.

(* internal.rs:100-106 *)
Definition parents_cached (t : term) : bool :=
  if g_is_empty (t_parents t) then true else negb (g_is_empty (t_allp t)).

(* ---------------- arena (termarena.rs) ---------------- *)

(* [ar_ph] is the fake term at index 0 of `terms`; [ar_terms] are terms[1..] in
   insertion order.  The lookup table `ids` is the function "position of the
   first term with that id", defined for ids below MAX_HPO_ID only. *)
Record arena := mkArena { ar_ph : term; ar_terms : list term }.

Definition arena_default : arena :=
  (* HpoTermInternal::default(): name "HP:0000000", id 0 *)
  mkArena (new_term [72; 80; 58; 48; 48; 48; 48; 48; 48; 48] 0) [].

Definition ar_find (id : N) (a : arena) : option term := find_by t_id id (ar_terms a).

Definition ar_len (a : arena) : N := Nlen (ar_terms a).

(* termarena.rs:104-111 insert: `self.ids[id]` panics out of range; an occupied
   slot is left alone *)
Definition ar_insert (t : term) (a : arena) : res arena :=
  if MAX_HPO_ID <=? t_id t then Panic
  else match ar_find (t_id t) a with
       | Some _ => Ok a
       | None => Ok (mkArena (ar_ph a) (ar_terms a ++ [t]))
       end.

(* termarena.rs:113-126 get / get_mut: None out of range or on slot 0 *)
Definition ar_get (id : N) (a : arena) : option term :=
  if MAX_HPO_ID <=? id then None else ar_find id a.

(* termarena.rs:128-134 get_unchecked(_mut): index panic out of range, the fake
   term for an absent id *)
Definition ar_get_unchecked (id : N) (a : arena) : res term :=
  if MAX_HPO_ID <=? id then Panic
  else match ar_find id a with Some t => Ok t | None => Ok (ar_ph a) end.

Definition ar_update (id : N) (f : term -> term) (a : arena) : arena :=
  mkArena (ar_ph a) (update_by t_id id f (ar_terms a)).

Definition ar_update_unchecked (id : N) (f : term -> term) (a : arena) : res arena :=
  if MAX_HPO_ID <=? id then Panic
  else match ar_find id a with
       | Some _ => Ok (ar_update id f a)
       | None => Ok (mkArena (f (ar_ph a)) (ar_terms a))
       end.

Definition ar_keys (a : arena) : list N := map t_id (ar_terms a).

(* ---------------- gene / disease records ---------------- *)

Record annot := mkAnnot { a_id : N; a_name : list N; a_hpos : group }.

Definition an_find (id : N) (l : list annot) : option annot := find_by a_id id l.

(* builder.rs:359-395 add_gene / add_*_disease: insert only when vacant *)
Definition an_add (name : list N) (id : N) (l : list annot) : list annot :=
  match an_find id l with Some _ => l | None => l ++ [mkAnnot id name []] end.

(* HashMap::insert: replaces an existing entry *)
Definition an_put (r : annot) (l : list annot) : list annot :=
  match an_find (a_id r) l with
  | Some _ => update_by a_id (a_id r) (fun _ => r) l
  | None => l ++ [r]
  end.

Definition an_add_term (id tid : N) (l : list annot) : list annot :=
  update_by a_id id (fun r => mkAnnot (a_id r) (a_name r) (g_add (a_hpos r) tid)) l.

(* ---------------- builder / ontology state ---------------- *)

Record onto := mkOnto {
  o_arena : arena;
  o_genes : list annot;
  o_omim : list annot;
  o_orpha : list annot;
  o_version : N * N * N;
  o_cat : group;
  o_mod : group
}.

Definition onto_new : onto := mkOnto arena_default [] [] [] (0, 0, 0) [] [].

Definition set_arena (a : arena) (o : onto) : onto :=
  mkOnto a (o_genes o) (o_omim o) (o_orpha o) (o_version o) (o_cat o) (o_mod o).
Definition set_version (v : N * N * N) (o : onto) : onto :=
  mkOnto (o_arena o) (o_genes o) (o_omim o) (o_orpha o) v (o_cat o) (o_mod o).
Definition set_cat (g : group) (o : onto) : onto :=
  mkOnto (o_arena o) (o_genes o) (o_omim o) (o_orpha o) (o_version o) g (o_mod o).
Definition set_mod (g : group) (o : onto) : onto :=
  mkOnto (o_arena o) (o_genes o) (o_omim o) (o_orpha o) (o_version o) (o_cat o) g.

Definition o_records (k : kind) (o : onto) : list annot :=
  match k with KGene => o_genes o | KOmim => o_omim o | KOrpha => o_orpha o end.
Definition set_records (k : kind) (l : list annot) (o : onto) : onto :=
  match k with
  | KGene => mkOnto (o_arena o) l (o_omim o) (o_orpha o) (o_version o) (o_cat o) (o_mod o)
  | KOmim => mkOnto (o_arena o) (o_genes o) l (o_orpha o) (o_version o) (o_cat o) (o_mod o)
  | KOrpha => mkOnto (o_arena o) (o_genes o) (o_omim o) l (o_version o) (o_cat o) (o_mod o)
  end.

Definition o_get (id : N) (o : onto) : option term := ar_get id (o_arena o).

(* builder.rs:212-226 add_term / new_term *)
Definition b_add_term (t : term) (o : onto) : res onto :=
  do a <- ar_insert t (o_arena o) ;; Ok (set_arena a o).
Definition b_new_term (name : list N) (id : N) (o : onto) : res onto :=
  b_add_term (new_term name id) o.

(* builder.rs:262-282 add_parent (after fix: the child is looked up before the
   parent is modified) *)
Definition b_add_parent (parent child : N) (o : onto) : res onto :=
  let a := o_arena o in
  match ar_get child a with
  | None => Err DoesNotExist
  | Some _ =>
      match ar_get parent a with
      | None => Err DoesNotExist
      | Some _ =>
          let a1 := ar_update parent (fun t => set_children (g_add (t_children t) child) t) a in
          match ar_get child a1 with
          | None => Err DoesNotExist
          | Some _ =>
              Ok (set_arena (ar_update child (fun t => set_parents (g_add (t_parents t) parent) t) a1) o)
          end
      end
  end.

(* builder.rs:284-296 add_parent_unchecked *)
Definition b_add_parent_unchecked (parent child : N) (a : arena) : res arena :=
  do a1 <- ar_update_unchecked parent (fun t => set_children (g_add (t_children t) child) t) a ;;
  ar_update_unchecked child (fun t => set_parents (g_add (t_parents t) parent) t) a1.

(* builder.rs:372-419 connect_all_terms / create_cache_of_grandparents /
   all_grandparents.  The mutual recursion runs on explicit fuel. *)
Fixpoint create_cache (fuel : nat) (a : arena) (id : N) : res arena :=
  match fuel with
  | O => Fuel
  | S f =>
      do t <- ar_get_unchecked id a ;;
      let parents := t_parents t in
      do ar <- foldM (fun (st : arena * group) (p : N) =>
                 let (a1, acc) := st in
                 (* all_grandparents(p) *)
                 do tp <- ar_get_unchecked p a1 ;;
                 do a2 <- (if parents_cached tp then Ok a1 else create_cache f a1 p) ;;
                 do tp' <- ar_get_unchecked p a2 ;;
                 Ok (a2, fold_left g_add (t_allp tp') acc))
               parents (a, []) ;;
      let (a', acc) := ar : arena * group in
      ar_update_unchecked id (set_allp (g_union acc parents)) a'
  end.

Definition connect_all (fuel : nat) (a : arena) : res arena :=
  foldM (fun a id => create_cache fuel a id) (ar_keys a) a.

Definition default_fuel (a : arena) : nat := S (length (ar_terms a)).

Definition b_connect_all_terms (o : onto) : res onto :=
  do a <- connect_all (default_fuel (o_arena o)) (o_arena o) ;; Ok (set_arena a o).

(* builder.rs:799-881 link_gene_term / link_omim_disease_term /
   link_orpha_disease_term: one function per kind in the code, one generic
   function here (Proofs/ shows nothing depends on the kind but the field) *)
Fixpoint link (fuel : nat) (k : kind) (a : arena) (tid gid : N) : res arena :=
  match fuel with
  | O => Fuel
  | S f =>
      match ar_get tid a with
      | None => Err DoesNotExist
      | Some t =>
          let (set', isnew) := g_insert gid (t_annots k t) in
          if isnew then
            foldM (fun a1 p => link f k a1 p gid) (t_allp t) (ar_update tid (set_annots k set') a)
          else Ok a
      end
  end.

Definition link_fuel (a : arena) : nat := S (S (length (ar_terms a))).

(* builder.rs:463-594 annotate_gene / annotate_omim_disease /
   annotate_orpha_disease (after fix: the term is looked up first) *)
Definition b_annotate (k : kind) (id : N) (name : list N) (tid : N) (o : onto) : res onto :=
  match o_get tid o with
  | None => Err DoesNotExist
  | Some _ =>
      let recs := an_add name id (o_records k o) in
      match an_find id recs with
      | None => Panic   (* expect("Gene is present because it was just added") *)
      | Some _ =>
          let o1 := set_records k (an_add_term id tid recs) o in
          do a <- link (link_fuel (o_arena o1)) k (o_arena o1) tid id ;;
          Ok (set_arena a o1)
      end
  end.

Definition b_add_record (k : kind) (name : list N) (id : N) (o : onto) : onto :=
  set_records k (an_add name id (o_records k o)) o.

(* builder.rs:886-922 calculate_*_ic; [icf total current] is
   InformationContent::calculate (term/information_content.rs:59-67),
   supplied by Model/IC.v *)
Section IC.
  Variable icf : N -> N -> res N.

  Definition term_ic (o : onto) (t : term) : res term :=
    do g <- icf (Nlen (o_genes o)) (Nlen (t_genes t)) ;;
    do m <- icf (Nlen (o_omim o)) (Nlen (t_omim t)) ;;
    do r <- icf (Nlen (o_orpha o)) (Nlen (t_orpha t)) ;;
    Ok (set_ic (g, m, r) t).

  Definition b_calculate_ic (o : onto) : res onto :=
    do ts <- mapM (term_ic o) (ar_terms (o_arena o)) ;;
    Ok (set_arena (mkArena (ar_ph (o_arena o)) ts) o).
End IC.

(* ontology.rs:1100-1150 set_default_categories / set_default_modifier *)
Definition neqb_pheno (x : N) : bool := negb (x =? PHENOTYPE_ID).

Definition set_default_categories (o : onto) : res onto :=
  match o_get ROOT_ID_CAT o with
  | None => Err DoesNotExist
  | Some root =>
      match o_get PHENOTYPE_ID o with
      | None => Err DoesNotExist
      | Some ph =>
          Ok (set_cat (g_from_list (filter neqb_pheno (t_children root) ++ t_children ph)) o)
      end
  end.

Definition set_default_modifier (o : onto) : res onto :=
  match o_get ROOT_ID o with
  | None => Err DoesNotExist
  | Some root => Ok (set_mod (g_from_list (filter neqb_pheno (t_children root))) o)
  end.

(* builder.rs:423-441 build_with_defaults / build_minimal *)
Definition b_build_minimal (o : onto) : onto := set_mod [] (set_cat [] o).
Definition b_build_with_defaults (o : onto) : res onto :=
  do o1 <- set_default_categories (b_build_minimal o) ;; set_default_modifier o1.
