(* Linkage.v — model of src/stats/linkage.rs (Linkage::{union, single, complete, average}),
   src/stats/linkage/cluster.rs and utils::Combinations (src/utils.rs:39-75).
   The distance matrix is a HashMap in the code (unspecified iteration order): here an
   association list; [closest] takes the first minimum in list order, so on a tie the model may
   pick another pair than the crate (the property excludes ties from exact comparison; the model
   reports whether it met one). *)
From HpoV Require Import Model.Base Model.Group.

(* ---------------- utils::Combinations ---------------- *)

(* Iterator::next as a state machine on (idx1, idx2); every call to `self.next()` from inside
   `next` is one more round of this loop.  [fuel] bounds the rounds. *)
Fixpoint comb_run {A} (fuel : nat) (inner : list (option A)) (idx1 idx2 : nat) : res (list (A * A)) :=
  match fuel with
  | O => Fuel
  | S f =>
      let len := length inner in
      if Nat.ltb idx1 len then
        match Nat.compare idx2 len with
        | Lt =>
            match nth_error inner idx1, nth_error inner idx2 with
            | Some (Some a), Some (Some b) =>
                do rest <- comb_run f inner idx1 (S idx2) ;; Ok ((a, b) :: rest)
            | _, _ => comb_run f inner idx1 (S idx2)       (* a `None` entry is skipped *)
            end
        | Eq => comb_run f inner (S idx1) (S (S idx1))
        | Gt => Ok []
        end
      else Ok []
  end.

Definition comb_fuel {A} (inner : list (option A)) : nat := S (S (length inner)) * S (S (length inner)).

(* Combinations::new: idx1 = 0, idx2 = 1 *)
Definition comb_new {A} (inner : list (option A)) : res (list (A * A)) := comb_run (comb_fuel inner) inner 0 1.
(* set_to_last: idx1 = len - 1, idx2 = 0 *)
Definition comb_last {A} (inner : list (option A)) : res (list (A * A)) :=
  comb_run (comb_fuel inner) inner (length inner - 1) 0.

(* ---------------- the linkage state ---------------- *)

Inductive method := MUnion | MSingle | MComplete | MAverage.

Section Num.
  Variable F : Type.
  Variable flt fgt : F -> F -> bool.
  Variable mean : F -> F -> F.           (* (a + b) / 2.0 *)
  (* the user's distance between two sets, the callback's value for one pair *)
  Variable dist : group -> group -> F.

  Definition dmat := list (nat * nat * F).
  Definition cluster : Type := nat * nat * F * nat.        (* lhs, rhs, distance, size *)

  Record lstate := mkL {
    l_sets : list (option group);
    l_dm : dmat;
    l_n : nat;                              (* initial_len *)
    l_clusters : list cluster;
    l_calls : list (list (group * group));  (* every invocation of the callback: the pairs it iterated *)
    l_tie : bool
  }.

  Fixpoint dm_get (k : nat * nat) (m : dmat) : option F :=
    match m with
    | [] => None
    | (i, j, v) :: t => if Nat.eqb i (fst k) && Nat.eqb j (snd k) then Some v else dm_get k t
    end.

  (* closest_clusters: reduce(|max, elmt| if elmt.1 < max.1 { elmt } else { max }) *)
  Definition closest (m : dmat) : option (nat * nat * F) :=
    match m with
    | [] => None
    | x :: t => Some (fold_left (fun mx e => if flt (snd e) (snd mx) then e else mx) t x)
    end.

  (* is the minimum attained by another entry as well? *)
  Definition is_tie (m : dmat) (best : nat * nat * F) : bool :=
    existsb (fun e => negb (Nat.eqb (fst (fst e)) (fst (fst best)) && Nat.eqb (snd (fst e)) (snd (fst best)))
                      && negb (flt (snd best) (snd e)) && negb (flt (snd e) (snd best))) m.

  (* size_of_cluster *)
  Definition size_of (n : nat) (cl : list cluster) (idx : nat) : res nat :=
    if Nat.ltb idx n then Ok 1%nat
    else match nth_error cl (idx - n) with
         | Some c => Ok (snd c)
         | None => Panic       (* expect("idx is guaranteed to be in cluster") *)
         end.

  Definition new_cluster (s : lstate) (i j : nat) (d : F) : res (list cluster) :=
    do a <- size_of (l_n s) (l_clusters s) i ;;
    do b <- size_of (l_n s) (l_clusters s) j ;;
    Ok (l_clusters s ++ [(i, j, d, (a + b)%nat)]).

  Fixpoint set_nth {A} (n : nat) (x : A) (l : list A) : list A :=
    match l, n with
    | [], _ => []
    | _ :: t, O => x :: t
    | y :: t, S k => y :: set_nth k x t
    end.

  Definition retain_not (i j : nat) (m : dmat) : dmat :=
    filter (fun e : nat * nat * F =>
              let '(a, b, _) := e in
              negb (Nat.eqb a i) && negb (Nat.eqb a j) && negb (Nat.eqb b i) && negb (Nat.eqb b j)) m.

  (* HashMap::insert *)
  Definition dm_insert (k : nat * nat) (v : F) (m : dmat) : dmat :=
    match dm_get k m with
    | Some _ => map (fun e : nat * nat * F => if Nat.eqb (fst (fst e)) (fst k) && Nat.eqb (snd (fst e)) (snd k) then (fst k, snd k, v) else e) m
    | None => m ++ [(fst k, snd k, v)]
    end.

  (* the f32_min / f32_max / mean closures of single / complete / average, on the two
     `Option<&f32>` they `expect` *)
  Definition arith (mt : method) (v1 v2 : option F) : res F :=
    match v1, v2 with
    | Some a, Some b =>
        Ok (match mt with
            | MSingle => if flt a b then a else b
            | MComplete => if fgt a b then a else b
            | _ => mean a b
            end)
    | _, _ => Panic
    end.

  (* one round of arithmetic_cluster (linkage.rs:450-515) *)
  Definition arith_round (mt : method) (s : lstate) : res (option lstate) :=
    match closest (l_dm s) with
    | None => Ok None
    | Some (i, j, d) =>
        do cl <- new_cluster s i j d ;;
        let x := match nth_error (l_sets s) i with Some v => v | None => None end in
        (* self.sets[key.0].take(); self.sets[key.1].take(): index panics out of range *)
        if negb (Nat.ltb i (length (l_sets s)) && Nat.ltb j (length (l_sets s))) then Panic else
        let sets1 := set_nth j None (set_nth i None (l_sets s)) in
        let new_idx := length sets1 in
        do dm <- foldM (fun (m : dmat) (p : nat * option group) =>
                    let (idx, st) := p in
                    if Nat.eqb idx i || Nat.eqb idx j then Ok m
                    else match st with
                         | None => Ok m
                         | Some _ =>
                             let k0 := if Nat.ltb idx i then (idx, i) else (i, idx) in
                             let k1 := if Nat.ltb idx j then (idx, j) else (j, idx) in
                             do v <- arith mt (dm_get k0 m) (dm_get k1 m) ;;
                             Ok (dm_insert (idx, new_idx) v m)
                         end)
                  (combine (seq 0 (length sets1)) sets1) (l_dm s) ;;
        Ok (Some (mkL (sets1 ++ [x]) (retain_not i j dm) (l_n s) cl (l_calls s)
                      (l_tie s || is_tie (l_dm s) (i, j, d))))
    end.

  (* HpoSet::extend: insert every id of the other set *)
  Definition set_extend (a b : group) : group := fold_left g_add b a.

  (* one round of cluster_set_unions (linkage.rs:391-447) *)
  Definition union_round (s : lstate) : res (option lstate) :=
    match closest (l_dm s) with
    | None => Ok None
    | Some (i, j, d) =>
        do cl <- new_cluster s i j d ;;
        match nth_error (l_sets s) i, nth_error (l_sets s) j with
        | Some (Some a), Some (Some b) =>
            let sets1 := set_nth j None (set_nth i None (l_sets s)) ++ [Some (set_extend a b)] in
            let dm1 := retain_not i j (l_dm s) in
            do pairs <- comb_last sets1 ;;
            let distances := map (fun p : group * group => dist (fst p) (snd p)) pairs in
            let last := (length sets1 - 1)%nat in
            do r <- foldM (fun (st : dmat * list F) (p : nat * option group) =>
                      let (m, ds) := st in
                      match snd p with
                      | None => Ok (m, ds)
                      | Some _ => match ds with
                                  | [] => Panic    (* expect("distance score must be present") *)
                                  | v :: ds' => Ok (dm_insert (fst p, last) v m, ds')
                                  end
                      end)
                    (combine (seq 0 last) (firstn last sets1)) (dm1, distances) ;;
            Ok (Some (mkL sets1 (fst r) (l_n s) cl (l_calls s ++ [pairs]) (l_tie s || is_tie (l_dm s) (i, j, d))))
        | _, _ => Panic     (* expect("set is part of distance matrix and must exist") *)
        end
    end.

  Fixpoint loop (fuel : nat) (round : lstate -> res (option lstate)) (s : lstate) : res lstate :=
    match fuel with
    | O => Fuel
    | S f => do r <- round s ;; match r with None => Ok s | Some s' => loop f round s' end
    end.

  (* Linkage::new + calculate_initial_distances *)
  Definition l_new (sets : list group) : res lstate :=
    let osets := map (@Some group) sets in
    do pairs <- comb_new osets ;;
    let sims := map (fun p : group * group => dist (fst p) (snd p)) pairs in
    do idx <- comb_new (map (@Some nat) (seq 0 (length sets))) ;;
    (* zip stops at the shorter one *)
    let dm := fold_left (fun m (e : (nat * nat) * F) => dm_insert (fst e) (snd e) m) (combine idx sims) [] in
    Ok (mkL osets dm (length sets) [] [pairs] false).

  Definition linkage (mt : method) (sets : list group) : res lstate :=
    do s <- l_new sets ;;
    loop (S (length sets)) (match mt with MUnion => union_round | _ => arith_round mt end) s.

  (* Linkage::indicies *)
  Definition indicies (s : lstate) : list nat :=
    flat_map (fun c : cluster => let '(l, r, _, _) := c in
                (if Nat.ltb l (l_n s) then [l] else []) ++ (if Nat.ltb r (l_n s) then [r] else []))
             (l_clusters s).
End Num.
