(* TermId.v — src/term/hpotermid.rs: Display ("HP:{:07}"), TryFrom<&str>, From<[u8;4]>,
   to_be_bytes; and core's `u32::from_str` grammar ('+'? digit+, value <= u32::MAX). *)
From HpoV Require Import Gen.Consts Model.Base Model.Binary.

Definition U32_MAX : N := 4294967295.

(* exactly k decimal digits of n (most significant first), zero padded *)
Fixpoint digits (k : nat) (n : N) : list N :=
  match k with
  | O => []
  | S k' => digits k' (n / 10) ++ [48 + n mod 10]
  end.

(* number of decimal digits of a u32, at least the padding width *)
Definition width (n : N) : nat :=
  if n <? 10000000 then N.to_nat ID_PAD
  else if n <? 100000000 then 8
  else if n <? 1000000000 then 9
  else 10.

(* Display for HpoTermId *)
Definition show (n : N) : list N := ID_DISPLAY_PREFIX ++ digits (width n) n.

(* core::num: from_str_radix(.., 10) for u32: checked_mul(10) then checked_add(digit) *)
Fixpoint parse_digits (l : list N) (acc : N) : option N :=
  match l with
  | [] => Some acc
  | d :: t =>
      if (48 <=? d) && (d <=? 57) then
        let acc' := acc * 10 + (d - 48) in
        if U32_MAX <? acc * 10 then None
        else if U32_MAX <? acc' then None
        else parse_digits t acc'
      else None
  end.

Definition parse_u32 (s : list N) : option N :=
  match s with
  | [] => None
  | 43 :: [] => None                         (* a lone "+" *)
  | 43 :: t => parse_digits t 0              (* leading '+' is accepted; '-' is an invalid digit *)
  | _ => parse_digits s 0
  end.

(* TryFrom<&str> for HpoTermId (after fix: s.get(3..)) on the bytes of a valid UTF-8 string *)
Definition parse_id (s : list N) : res N :=
  if Nlen s <? ID_MIN_LEN then Err ParseIntError
  else if negb (is_char_boundary s ID_PREFIX_LEN) then Err ParseIntError
  else match parse_u32 (skipn (N.to_nat ID_PREFIX_LEN) s) with
       | Some n => Ok n
       | None => Err ParseIntError
       end.

(* From<[u8; 4]> / AnnotationId::to_be_bytes *)
Definition id_of_be (b : list N) : option N :=
  match b with [a; b1; c; d] => Some (be32 a b1 c d) | _ => None end.
Definition id_to_be (n : N) : list N := to_be32 n.
