(* IC.v — InformationContent::calculate (src/term/information_content.rs:59-67)
   and f32_from_usize (src/lib.rs:88-91).  `f32::ln` is a platform (libm)
   function without a bit-level specification: it enters as the oracle [fln]
   on bit patterns; the run instantiates it with a table of the runtime's
   values on exactly the arguments that occur. *)
From HpoV Require Import Model.Base Model.F32.

Definition U16_MAX : N := 65535.

Section Oracle.
  Variable fln : N -> option N.

  Definition ic32 (total current : N) : res N :=
    if (total =? 0) || (current =? 0) then Ok 0
    else if U16_MAX <? total then Err TryFromIntError
    else if U16_MAX <? current then Err TryFromIntError
    else
      let q := to_bits (fdiv (f_of_N current) (f_of_N total)) in
      match fln q with
      | Some r => Ok (to_bits (fmul (of_bits r) f_mone))
      | None => Err OracleMissing
      end.
End Oracle.

Definition table_oracle (tbl : list (N * N)) (x : N) : option N :=
  match find_by fst x tbl with Some p => Some (snd p) | None => None end.
