(* Bulk.v — a Builder script with a long run of add_gene / add_omim_disease / add_orpha_disease
   calls (ids first, first+1, ..., first+count-1, one fixed name) between connect_all_terms and the
   script's own annotation calls.  Tens of thousands of records are needed to reach the u16 limit of
   InformationContent::calculate (src/lib.rs f32_from_usize); running them one call at a time
   through [run_annot_op] is quadratic in the model's association lists, so the run uses [bulk_add],
   which appends the whole block at once when no id of the block is present yet.  Proofs/BulkP.v
   proves [bulk_add] equal to the call-by-call fold for every first / count / state, and
   [run_builder_bulk] equal to [run_builder] on the script with the calls spelled out. *)
From HpoV Require Import Gen.Consts Model.Base Model.Group Model.Onto Model.Query Model.Dump Model.Script.

Definition bulk_name : list N := [103].   (* "g" *)

Fixpoint nrange (first : N) (count : nat) : list N :=
  match count with O => [] | S c => first :: nrange (first + 1) c end.

(* the calls, spelled out *)
Definition bulk_ops (tag first : N) (count : nat) : list annot_op :=
  map (fun id => (tag, id, 0, bulk_name)) (nrange first count).

Definition bulk_slow (k : kind) (first : N) (count : nat) (o : onto) : onto :=
  fold_left (fun o id => b_add_record k bulk_name id o) (nrange first count) o.

Definition outside (first : N) (count : nat) (r : annot) : bool :=
  (a_id r <? first) || (first + N.of_nat count <=? a_id r).

Definition bulk_add (k : kind) (first : N) (count : nat) (o : onto) : onto :=
  if forallb (outside first count) (o_records k o)
  then set_records k (o_records k o ++ map (fun id => mkAnnot id bulk_name []) (nrange first count)) o
  else bulk_slow k first count o.

Section Run.
  Variable icf : N -> N -> res N.

  Definition run_builder_bulk (s : script) (tag first : N) (count : nat) : res (onto * list N) :=
    let '(ver, terms, parents, annots, _) := s in
    let o0 := set_version ver onto_new in
    do o1 <- foldM (fun o (t : N * list N) => b_new_term (snd t) (fst t) o) terms o0 ;;
    do r2 <- run_ops (fun o (pc : N * N) => step_keep (b_add_parent (fst pc) (snd pc) o) o) parents o1 ;;
    let (o2, codes2) := r2 : onto * list N in
    do o3 <- b_connect_all_terms o2 ;;
    let o3' := bulk_add (kind_of tag) first count o3 in
    do r4 <- run_ops run_annot_op annots o3' ;;
    let (o4, codes4) := r4 : onto * list N in
    Ok (o4, codes2 ++ repeat 0 count ++ codes4).

  Definition run_script_bulk (s : script) (tag first : N) (count : nat) : res (list N * res onto) :=
    let '(_, _, _, _, kindb) := s in
    do r <- run_builder_bulk s tag first count ;;
    let (o, codes) := r : onto * list N in
    match finish icf kindb o with
    | Panic => Panic
    | Fuel => Fuel
    | r => Ok (codes, r)
    end.
End Run.

(* the script with the block spelled out *)
Definition with_bulk (s : script) (tag first : N) (count : nat) : script :=
  let '(ver, terms, parents, annots, kindb) := s in (ver, terms, parents, bulk_ops tag first count ++ annots, kindb).
