(* SubOnt.v — Ontology::sub_ontology (src/ontology.rs:896-1010, after the fix that counts a
   modifier root itself as a modifier term).  The code collects the retained terms in a
   HashSet and walks the gene / disease maps in HashMap order; every such order is unspecified,
   the model uses ascending ids (observations are order-insensitive, see C16). *)
From HpoV Require Import Gen.Consts Model.Base Model.Group Model.Onto Model.Query.

Section Sub.
  Variable icf : N -> N -> res N.

  (* the retained term ids: every leaf and its path to root *)
  Definition sub_ids (o : onto) (root : term) (leaves : list N) : res group :=
    foldM (fun (acc : group) (l : N) =>
             (* leaves are HpoTerms of this ontology: get_unchecked(term.id()) *)
             do lt <- ar_get_unchecked l (o_arena o) ;;
             do p <- path_anc (q_fuel o) o lt root ;;
             match p with
             | None => Err NotImplemented
             | Some path => Ok (fold_left g_add path (g_add acc (t_id lt)))
             end) leaves [].

  Definition sub_annotate (k : kind) (o : onto) (ids pheno : group) (b : onto) : res onto :=
    foldM (fun (b1 : onto) (r : annot) =>
             if g_is_empty (g_inter (a_hpos r) pheno) then Ok b1
             else foldM (fun b2 t => b_annotate k (a_id r) (a_name r) t b2) (g_inter (a_hpos r) ids) b1)
          (sort_by a_id (o_records k o)) b.

  Definition sub_ontology (o : onto) (root : term) (leaves : list N) : res onto :=
    do ids <- sub_ids o root leaves ;;
    do terms <- mapM (fun id => ar_get_unchecked id (o_arena o)) ids ;;
    (* copies: name, obsolete flag, replacement *)
    do b0 <- foldM (fun b t => b_add_term (set_flags (t_obsolete t) (t_repl t) (new_term (t_name t) (t_id t))) b)
                   terms onto_new ;;
    (* induced parent links *)
    do a1 <- foldM (fun a t =>
                      foldM (fun a' p => if g_contains p ids then b_add_parent_unchecked p (t_id t) a' else Ok a')
                            (t_parents t) a)
                   terms (o_arena b0) ;;
    do a2 <- connect_all (default_fuel a1) a1 ;;
    let b2 := set_arena a2 b0 in
    let pheno := g_from_list (map t_id (filter (fun t =>
                   g_is_empty (g_inter (g_bitor_id (t_allp t) (t_id t)) (o_mod o))) terms)) in
    do b3 <- sub_annotate KGene o ids pheno b2 ;;
    do b4 <- sub_annotate KOmim o ids pheno b3 ;;
    do b5 <- sub_annotate KOrpha o ids pheno b4 ;;
    do b6 <- b_calculate_ic icf b5 ;;
    Ok (b_build_minimal b6).
End Sub.
