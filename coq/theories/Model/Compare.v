(* Compare.v — model of src/ontology/comparison.rs (Comparison, HpoTermDelta, AnnotationDelta).
   Vectors whose order Rust leaves to HashMap / HashSet iteration are reported in ascending id
   order (both sides of the correspondence sort them). *)
From HpoV Require Import Gen.Consts Model.Base Model.Group Model.Onto Model.Query.

(* an Option<(old, new)> as a list: [] = None, [old; new] = Some *)
Definition changed_pair {A} (eqb : A -> A -> bool) (a b : A) : list A :=
  if eqb a b then [] else [a; b].

Definition bool_eqb (a b : bool) : bool := Bool.eqb a b.

(* HpoTermDelta: id, changed_name, added_parents, removed_parents, changed_obsolete, changed_replacement *)
Definition tdelta : Type := N * list (list N) * list N * list N * list N * list (list N).

(* comparison.rs:219-262 HpoTermDelta::new.  lhs.parents() / rhs.parents() are resolving iterators
   (they panic on a dangling id); the two HashSet differences are reported ascending. *)
Definition term_delta (ol orr : onto) (l r : term) : res (option tdelta) :=
  do _ <- resolve_all ol (t_parents l) ;;
  do _ <- resolve_all orr (t_parents r) ;;
  let removed := filter (fun p => negb (mem p (t_parents r))) (t_parents l) in
  let added := filter (fun p => negb (mem p (t_parents l))) (t_parents r) in
  let repl_l := option_map t_id (replaced_by ol l) in
  let repl_r := option_map t_id (replaced_by orr r) in
  if negb (list_eqb (t_name l) (t_name r))
     || negb (g_is_empty removed) || negb (g_is_empty added)
     || negb (bool_eqb (t_obsolete l) (t_obsolete r))
     || negb (opt_eqb repl_l repl_r)
  then Ok (Some (t_id l,
                 changed_pair list_eqb (t_name l) (t_name r),
                 added, removed,
                 changed_pair N.eqb (boolN (t_obsolete l)) (boolN (t_obsolete r)),
                 changed_pair list_eqb (optN repl_l) (optN repl_r)))
  else Ok None.

Definition terms_sorted (o : onto) : list term := sort_by t_id (ar_terms (o_arena o)).

(* comparison.rs:67-109 *)
Definition added_terms (ol orr : onto) : list N :=
  map t_id (filter (fun t => match o_get (t_id t) ol with None => true | Some _ => false end) (terms_sorted orr)).
Definition removed_terms (ol orr : onto) : list N := added_terms orr ol.

Definition changed_terms (ol orr : onto) : res (list tdelta) :=
  do ds <- mapM (fun t => match o_get (t_id t) orr with
                          | Some r => term_delta ol orr t r
                          | None => Ok None
                          end) (terms_sorted ol) ;;
  Ok (somes ds).

(* AnnotationDelta: id, changed_name, n_terms, added_terms, removed_terms *)
Definition adelta : Type := N * list (list N) * (N * N) * list N * list N.

(* comparison.rs:334-361 AnnotationDelta::delta *)
Definition annot_delta (l r : annot) : option adelta :=
  let added := filter (fun t => negb (g_contains t (a_hpos l))) (a_hpos r) in
  let removed := filter (fun t => negb (g_contains t (a_hpos r))) (a_hpos l) in
  if negb (g_is_empty added) || negb (g_is_empty removed) || negb (list_eqb (a_name l) (a_name r))
  then Some (a_id l, changed_pair list_eqb (a_name l) (a_name r), (g_len (a_hpos l), g_len (a_hpos r)), added, removed)
  else None.

Definition records_sorted (k : kind) (o : onto) : list annot := sort_by a_id (o_records k o).

(* comparison.rs:111-207, one triple per kind *)
Definition added_records (k : kind) (ol orr : onto) : list N :=
  map a_id (filter (fun r => match an_find (a_id r) (o_records k ol) with None => true | Some _ => false end)
                   (records_sorted k orr)).
Definition removed_records (k : kind) (ol orr : onto) : list N := added_records k orr ol.
Definition changed_records (k : kind) (ol orr : onto) : list adelta :=
  somes (map (fun l => match an_find (a_id l) (o_records k orr) with
                       | Some r => annot_delta l r
                       | None => None
                       end) (records_sorted k ol)).

Definition tcmp : Type := list N * list N * list tdelta.
Definition acmp : Type := list N * list N * list adelta.
Definition cmp : Type := tcmp * acmp * acmp * acmp.

Definition compare (ol orr : onto) : res cmp :=
  do ch <- changed_terms ol orr ;;
  Ok ((added_terms ol orr, removed_terms ol orr, ch),
      (added_records KGene ol orr, removed_records KGene ol orr, changed_records KGene ol orr),
      (added_records KOmim ol orr, removed_records KOmim ol orr, changed_records KOmim ol orr),
      (added_records KOrpha ol orr, removed_records KOrpha ol orr, changed_records KOrpha ol orr)).
