(* Matrix.v — model of src/matrix.rs (Matrix, RowIterator, ColumnIterator) over any element type.
   A matrix is (rows, cols, row-major data); nothing checks that |data| = rows * cols
   (matrix.rs: "callers must ensure this"), so the model keeps the slice panic. *)
From HpoV Require Import Model.Base.
Local Open Scope nat_scope.

Record matrix (A : Type) := mkMat { m_rows : nat; m_cols : nat; m_data : list A }.
Arguments mkMat {A}.
Arguments m_rows {A}.
Arguments m_cols {A}.
Arguments m_data {A}.

Definition m_is_empty {A} (m : matrix A) : bool := match m_data m with [] => true | _ => false end.

(* matrix.rs RowIndexIterator::next: while idx < rows*cols yield idx ..= idx+cols-1, idx += cols.
   [k] counts the ranges still possible; the loop yields at most [rows] ranges when cols > 0 and
   none when rows*cols = 0. *)
Fixpoint row_ranges (k : nat) (idx total cols : nat) : list (nat * nat) :=
  match k with
  | O => []
  | S k' => if Nat.leb total idx then [] else (idx, idx + cols - 1) :: row_ranges k' (idx + cols) total cols
  end.

(* &data[a..=b]: panics when b >= len (or a > b + 1) *)
Definition slice_incl {A} (l : list A) (a b : nat) : res (list A) :=
  if Nat.ltb b (length l) && Nat.leb a (S b) then Ok (firstn (S b - a) (skipn a l)) else Panic.

(* Matrix::rows: one slice per range *)
Definition m_rows_iter {A} (m : matrix A) : res (list (list A)) :=
  mapM (fun r : nat * nat => slice_incl (m_data m) (fst r) (snd r))
       (row_ranges (m_rows m) 0 (m_rows m * m_cols m) (m_cols m)).

(* Iterator::step_by(n) on a slice iterator: first element, then every n-th.  [fuel] bounds the
   recursion by the length of the list. *)
Fixpoint step_by {A} (fuel : nat) (n : nat) (l : list A) : list A :=
  match fuel with
  | O => []
  | S f => match l with
           | [] => []
           | x :: t => x :: step_by f n (skipn (n - 1) t)
           end
  end.

(* Matrix::cols: for idx in 0..cols: skip idx elements of the whole slice, then step_by(cols) *)
Definition m_cols_iter {A} (m : matrix A) : list (list A) :=
  map (fun j => step_by (length (m_data m)) (m_cols m) (skipn j (m_data m))) (seq 0 (m_cols m)).

(* reference indexing, used by the specifications *)
Definition m_at {A} (d : A) (m : matrix A) (i j : nat) : A := nth (i * m_cols m + j) (m_data m) d.
