//! C01: ancestor sets are the exact transitive closure.
use crate::build;
use crate::dump::gids;
use crate::gen::{self, Facts, Opts};
use crate::rng::Rng;
use crate::v::{ln, n, V};
use crate::world::{self, World};
use crate::Case;
use hpo::annotations::AnnotationId;
use hpo::{HpoTerm, Ontology};

pub fn obs_c01(o: &Ontology) -> V {
    let mut terms: Vec<HpoTerm> = o.hpos().collect();
    terms.sort_by_key(|t| t.id().as_u32());
    let ts: Vec<V> = terms
        .iter()
        .map(|t| {
            let _ = t.parents().count() + t.children().count() + t.all_parents().count();
            V::T(vec![n(t.id().as_u32()), ln(&gids(t.parent_ids())), ln(&gids(t.children_ids())), ln(&gids(t.all_parent_ids()))])
        })
        .collect();
    let m: Vec<V> = terms
        .iter()
        .map(|a| V::L(terms.iter().map(|b| n(u32::from(a.child_of(b)) + 2 * u32::from(a.parent_of(b)))).collect()))
        .collect();
    V::T(vec![V::L(ts), V::L(m)])
}

pub fn tags_for(f: &Facts) -> Vec<&'static str> {
    let mut tags = vec![];
    let depth = f.depth();
    if f.has_diamond() {
        tags.push("diamond");
    }
    if depth >= 3 {
        tags.push("deep");
    }
    if f.has_diamond() && depth >= 3 {
        tags.push("nt");
    }
    tags
}

pub fn cases(rng: &mut Rng, count: usize, tier: &str) -> Vec<Case> {
    let mut out = vec![];
    while out.len() < count {
        let mut o = Opts::default();
        o.max_terms = if tier == "thorough" && rng.chance(1, 10) { 60 } else { 16 };
        o.max_records = 2;
        o.dense = rng.chance(1, 2);
        if o.dense {
            o.min_terms = 5;
        }
        let mut tags = vec![];
        let (w, f) = world::gen_world_sub_p(rng, o, &mut tags, if o.dense { 2 } else { 4 });
        let b = w.build();
        let obs = world::on_onto(&b, obs_c01);
        tags.extend(tags_for(&f));
        out.push(Case { input: world::winput(&w, f.n_records()), obs, tags });
    }
    out
}
