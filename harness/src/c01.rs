//! C01: ancestor sets are the exact transitive closure.
use crate::build;
use crate::dump::gids;
use crate::gen::{self, Facts, Opts};
use crate::rng::Rng;
use crate::v::{ln, n, V};
use crate::world::{self, World};
use crate::Case;
use hpo::annotations::AnnotationId;
use hpo::{HpoTerm, Ontology};

pub fn obs_c01(o: &Ontology) -> V {
    let mut terms: Vec<HpoTerm> = o.hpos().collect();
    terms.sort_by_key(|t| t.id().as_u32());
    let ts: Vec<V> = terms
        .iter()
        .map(|t| {
            let _ = t.parents().count() + t.children().count() + t.all_parents().count();
            V::T(vec![n(t.id().as_u32()), ln(&gids(t.parent_ids())), ln(&gids(t.children_ids())), ln(&gids(t.all_parent_ids()))])
        })
        .collect();
    let m: Vec<V> = terms
        .iter()
        .map(|a| V::L(terms.iter().map(|b| n(u32::from(a.child_of(b)) + 2 * u32::from(a.parent_of(b)))).collect()))
        .collect();
    V::T(vec![V::L(ts), V::L(m)])
}

pub fn tags_for(f: &Facts) -> Vec<&'static str> {
    let mut tags = vec![];
    let depth = f.depth();
    if f.has_diamond() {
        tags.push("diamond");
    }
    if depth >= 3 {
        tags.push("deep");
    }
    if f.has_diamond() && depth >= 3 {
        tags.push("nt");
    }
    tags
}

/// a WIDE ontology: a root with 258-300 children and one term below all of them (fan-out and fan-in
/// beyond 255 and beyond the inline capacity of the id groups), one gene on the bottom term
fn wide_facts(rng: &mut Rng) -> gen::Facts {
    let k = rng.range(258, 300) as usize;
    let ids = gen::gen_ids(rng, k + 2, false, &[]);
    let (root, bottom, mids) = (ids[0], ids[1], &ids[2..]);
    let mut f = gen::Facts::default();
    for id in &ids {
        f.terms.push(gen::TermF { id: *id, name: format!("t{id}"), obsolete: false, replacement: None });
    }
    for m in mids {
        f.links.push((*m, root));
        f.links.push((bottom, *m));
    }
    f.genes.push(gen::AnnF { id: 7, name: "G".to_string(), terms: vec![bottom] });
    f
}

pub fn cases(rng: &mut Rng, count: usize, tier: &str) -> Vec<Case> {
    let mut out = vec![];
    while out.len() < count {
        if out.len() == 2 {
            // the third case of every run: the wide ontology, built through the Builder
            let f = wide_facts(rng);
            let w = World::Builder(build::script_from_facts(rng, &f, 0));
            let b = w.build();
            let obs = world::on_onto(&b, obs_c01);
            out.push(Case { input: world::winput(&w, f.n_records()), obs, tags: vec!["wide", "builder", "nt"] });
            continue;
        }
        let mut o = Opts::default();
        o.max_terms = if tier == "thorough" && rng.chance(1, 10) { 60 } else { 16 };
        o.max_records = 2;
        o.dense = rng.chance(1, 2);
        if o.dense {
            o.min_terms = 5;
        }
        let mut tags = vec![];
        if out.len() < 2 {
            // one very long chain (deeper than any plausible recursion guard: 32, 64, 100, 128, 256), supplied
            // descendants-first or ancestors-first
            o.deep = true;
            o.dense = false;
            o.min_terms = 260;
            o.max_terms = if tier == "thorough" { 520 } else { 300 };
            o.max_records = 1;
            tags.push("very_deep_chain");
        } else if rng.chance(1, 16) {
            // one long chain (33-70 terms), supplied in random order
            o.deep = true;
            o.dense = false;
            o.min_terms = 36;
            o.max_terms = if tier == "thorough" { 90 } else { 60 };
            o.max_records = 1;
            tags.push("deep_chain");
        }
        let very_deep_builder = out.is_empty();
        let (mut w, f) = if very_deep_builder {
            // the first case: a Builder script, leaf first (the cache recursion climbs the whole chain from the first term)
            let f = gen::gen_facts(rng, o);
            tags.push("builder");
            (World::Builder(build::script_from_facts(rng, &f, 0)), f)
        } else {
            world::gen_world_sub_p(rng, o, &mut tags, if o.dense { 2 } else { 4 })
        };
        if o.deep {
            // supply the terms descendants-first (or ancestors-first): the cache recursion climbs the whole chain
            let inner = match &mut w {
                World::Sub(b, _, _) => &mut **b,
                other => other,
            };
            if let World::Builder(s) = inner {
                let depth_of: std::collections::BTreeMap<u32, usize> = f.terms.iter().map(|t| (t.id, f.ancestors(t.id).len())).collect();
                s.terms.sort_by_key(|t| depth_of.get(&t.0).copied().unwrap_or(0));
                if very_deep_builder || rng.chance(2, 3) {
                    s.terms.reverse();
                }
            }
        }
        // a client that skips links to terms it does not have: add_parent calls naming an absent term fail,
        // and the links that were accepted must still be the whole story (children = parents^-1)
        if !very_deep_builder && rng.chance(1, 4) {
            let inner = match &mut w {
                World::Sub(b, _, _) => &mut **b,
                other => other,
            };
            if let World::Builder(s) = inner {
                if !f.terms.is_empty() {
                    for _ in 0..rng.range(1, 3) {
                        let absent = loop {
                            let c = rng.range(2, 9_999_999) as u32;
                            if !f.has(c) {
                                break c;
                            }
                        };
                        let present = rng.pick(&f.terms).id;
                        let pc = match rng.below(3) {
                            0 => (absent, present),
                            _ => (present, absent),
                        };
                        let at = rng.below(s.parents.len() as u64 + 1) as usize;
                        s.parents.insert(at, pc);
                    }
                    tags.push("refused_links");
                }
            }
        }
        let b = w.build();
        let obs = world::on_onto(&b, obs_c01);
        tags.extend(tags_for(&f));
        out.push(Case { input: world::winput(&w, f.n_records()), obs, tags });
    }
    out
}

/// C01r: as_mermaid / as_graphviz against the terms in iteration order
pub fn obs_c01r(o: &Ontology) -> V {
    let ts: Vec<V> = o
        .hpos()
        .map(|t| V::T(vec![n(t.id().as_u32()), crate::v::bytes(t.name().as_bytes()), ln(&gids(t.children_ids()))]))
        .collect();
    V::T(vec![V::L(ts), crate::v::bytes(o.as_mermaid().as_bytes()), crate::v::bytes(o.as_graphviz("dot").as_bytes())])
}

pub fn cases_r(rng: &mut Rng, count: usize, tier: &str) -> Vec<Case> {
    let mut out = vec![];
    while out.len() < count {
        let mut o = Opts::default();
        o.max_terms = if tier == "thorough" && rng.chance(1, 10) { 40 } else { 12 };
        o.max_records = 1;
        o.dense = rng.chance(1, 2);
        let mut tags = vec![];
        let (w, f) = world::gen_world_sub_p(rng, o, &mut tags, 3);
        let b = w.build();
        let obs = world::on_onto(&b, obs_c01r);
        tags.extend(tags_for(&f));
        if f.terms.len() >= 3 {
            tags.push("nt");
        }
        out.push(Case { input: world::winput(&w, f.n_records()), obs, tags });
    }
    out
}
