//! Values exchanged with the Coq model: printed in Gallina syntax
//! (numbers, `[a; b]`, `(a, b)`, constructor applications).
use std::fmt;

#[derive(Clone, Debug, PartialEq, Eq)]
pub enum V {
    N(u128),
    L(Vec<V>),
    T(Vec<V>),
    C(&'static str, Vec<V>),
    /// a value already printed in Gallina syntax (the output of a child harness process)
    Raw(String),
}

impl fmt::Display for V {
    fn fmt(&self, f: &mut fmt::Formatter<'_>) -> fmt::Result {
        match self {
            V::N(n) => write!(f, "{n}"),
            V::Raw(s) => write!(f, "{s}"),
            V::L(l) => {
                write!(f, "[")?;
                for (i, x) in l.iter().enumerate() {
                    if i > 0 {
                        write!(f, "; ")?;
                    }
                    write!(f, "{x}")?;
                }
                write!(f, "]")
            }
            V::T(l) => {
                write!(f, "(")?;
                for (i, x) in l.iter().enumerate() {
                    if i > 0 {
                        write!(f, ", ")?;
                    }
                    write!(f, "{x}")?;
                }
                write!(f, ")")
            }
            V::C(name, args) => {
                if args.is_empty() {
                    write!(f, "{name}")
                } else {
                    write!(f, "({name}")?;
                    for x in args {
                        write!(f, " {x}")?;
                    }
                    write!(f, ")")
                }
            }
        }
    }
}

pub fn n<T: Into<u128>>(x: T) -> V {
    V::N(x.into())
}
pub fn nu(x: usize) -> V {
    V::N(x as u128)
}
pub fn b(x: bool) -> V {
    V::N(u128::from(x))
}
pub fn ln<T: Copy + Into<u128>>(xs: &[T]) -> V {
    V::L(xs.iter().map(|x| V::N((*x).into())).collect())
}
pub fn bytes(s: &[u8]) -> V {
    V::L(s.iter().map(|x| V::N(u128::from(*x))).collect())
}
pub fn optn(o: Option<u32>) -> V {
    match o {
        Some(x) => V::L(vec![n(x)]),
        None => V::L(vec![]),
    }
}
