//! Independent encoders for the documented binary layouts v1, v2, v3 (written from the
//! rustdoc tables of as_bytes / HpoTermInternal::as_bytes / Gene::as_bytes / Disease::as_bytes,
//! not from the library's writer).  Record order inside each section is random.
use crate::gen::{AnnF, Facts};
use crate::rng::Rng;
use std::collections::BTreeSet;

fn be(x: u32) -> [u8; 4] {
    x.to_be_bytes()
}

/// longest prefix of at most `limit` bytes that ends on a char boundary
pub fn cut(name: &str, limit: usize) -> &str {
    let mut k = name.len().min(limit);
    while !name.is_char_boundary(k) {
        k -= 1;
    }
    &name[..k]
}

fn section(out: &mut Vec<u8>, body: Vec<u8>) {
    out.extend_from_slice(&be(body.len() as u32));
    out.extend_from_slice(&body);
}

fn ann_record(r: &AnnF, gene: bool, rng: &mut Rng) -> Vec<u8> {
    let mut ids: Vec<u32> = r.terms.iter().copied().collect::<BTreeSet<_>>().into_iter().collect();
    rng.shuffle(&mut ids);
    let mut body = vec![];
    body.extend_from_slice(&be(r.id));
    if gene {
        let nm = cut(&r.name, 255);
        body.push(nm.len() as u8);
        body.extend_from_slice(nm.as_bytes());
    } else {
        body.extend_from_slice(&be(r.name.len() as u32));
        body.extend_from_slice(r.name.as_bytes());
    }
    body.extend_from_slice(&be(ids.len() as u32));
    for t in ids {
        body.extend_from_slice(&be(t));
    }
    let mut rec = be(body.len() as u32 + 4).to_vec();
    rec.extend_from_slice(&body);
    rec
}

/// facts as a file of the given layout version (1, 2 or 3)
pub fn encode(f: &Facts, version: u8, rng: &mut Rng) -> Vec<u8> {
    let mut out = vec![];
    if version >= 2 {
        out.extend_from_slice(b"HPO");
        out.push(version);
        out.extend_from_slice(&f.version.0.to_be_bytes());
        out.push(f.version.1);
        out.push(f.version.2);
    }
    // terms
    let mut order: Vec<usize> = (0..f.terms.len()).collect();
    rng.shuffle(&mut order);
    let mut body = vec![];
    for i in &order {
        let t = &f.terms[*i];
        let nm = cut(&t.name, 255);
        let mut rec = vec![];
        rec.extend_from_slice(&be(t.id));
        rec.push(nm.len() as u8);
        rec.extend_from_slice(nm.as_bytes());
        if version >= 2 {
            rec.push(u8::from(t.obsolete));
            rec.extend_from_slice(&be(t.replacement.unwrap_or(0)));
        }
        body.extend_from_slice(&be(rec.len() as u32 + 4));
        body.extend_from_slice(&rec);
    }
    section(&mut out, body);
    // parents: one record per term (also for terms without parents)
    rng.shuffle(&mut order);
    let mut body = vec![];
    for i in &order {
        let t = &f.terms[*i];
        let mut ps: Vec<u32> = f.parents_of(t.id).into_iter().collect();
        rng.shuffle(&mut ps);
        if ps.is_empty() && rng.chance(1, 3) {
            continue; // a term without parents needs no record
        }
        body.extend_from_slice(&be(ps.len() as u32));
        body.extend_from_slice(&be(t.id));
        for p in ps {
            body.extend_from_slice(&be(p));
        }
    }
    section(&mut out, body);
    for (k, recs) in [&f.genes, &f.omim, &f.orpha].iter().enumerate() {
        if k == 2 && version < 3 {
            break;
        }
        let mut idx: Vec<usize> = (0..recs.len()).collect();
        rng.shuffle(&mut idx);
        let mut body = vec![];
        for i in idx {
            body.extend_from_slice(&ann_record(&recs[i], k == 0, rng));
        }
        section(&mut out, body);
    }
    out
}

/// the facts a layout version can carry
pub fn restrict(f: &Facts, version: u8) -> Facts {
    let mut g = f.clone();
    if version < 3 {
        g.orpha.clear();
    }
    if version < 2 {
        g.version = (0, 0, 0);
        for t in g.terms.iter_mut() {
            t.obsolete = false;
            t.replacement = None;
        }
    }
    for t in g.terms.iter_mut() {
        t.name = cut(&t.name, 255).to_string();
    }
    for r in g.genes.iter_mut() {
        r.name = cut(&r.name, 255).to_string();
    }
    g
}

/// the writer's output with the records of the three annotation sections sorted by id
/// (they are emitted in HashMap order); None if the bytes are not a well-formed v3 file
pub fn canonical_v3(b: &[u8]) -> Option<Vec<u8>> {
    let rd = |b: &[u8], i: usize| -> Option<usize> { Some(u32::from_be_bytes(b.get(i..i + 4)?.try_into().ok()?) as usize) };
    let mut out = b.get(0..8)?.to_vec();
    let mut pos = 8;
    for sec in 0..5 {
        let len = rd(b, pos)?;
        let body = b.get(pos + 4..pos + 4 + len)?;
        out.extend_from_slice(&b[pos..pos + 4]);
        if sec < 2 {
            out.extend_from_slice(body);
        } else {
            let mut recs: Vec<(u32, &[u8])> = vec![];
            let mut i = 0;
            while i < body.len() {
                let rl = rd(body, i)?;
                if rl < 8 {
                    return None;
                }
                let rec = body.get(i..i + rl)?;
                recs.push((rd(rec, 4)? as u32, rec));
                i += rl;
            }
            recs.sort_by_key(|r| r.0);
            for (_, r) in recs {
                out.extend_from_slice(r);
            }
        }
        pos += 4 + len;
    }
    if pos != b.len() {
        return None;
    }
    Some(out)
}
