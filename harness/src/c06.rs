//! C06: gene / OMIM / ORPHA enrichment (hypergeometric tail, fold enrichment).
use crate::build::Script;
use crate::dump;
use crate::gen::Opts;
use crate::rng::Rng;
use crate::v::{ln, n, V};
use crate::world::{self, World};
use crate::Case;
use hpo::annotations::AnnotationId;
use hpo::stats::hypergeom::{gene_enrichment, omim_disease_enrichment, orpha_disease_enrichment};
use hpo::{HpoTerm, HpoTermId, Ontology};
use std::collections::BTreeSet;

fn f64_bits(x: f64) -> u64 {
    if x.is_nan() {
        0x7ff8_0000_0000_0000
    } else {
        x.to_bits()
    }
}

fn annot_ids(t: &HpoTerm, kind: u8) -> Vec<u32> {
    let mut v: Vec<u32> = match kind {
        0 => t.gene_ids().iter().map(|g| g.as_u32()).collect(),
        1 => t.omim_disease_ids().iter().map(|g| g.as_u32()).collect(),
        _ => t.orpha_disease_ids().iter().map(|g| g.as_u32()).collect(),
    };
    v.sort();
    v
}

fn observe(o: &Ontology, kind: u8, bg: &[u32], sample: &[u32]) -> V {
    let terms = |ids: &[u32]| -> Vec<HpoTerm> { ids.iter().map(|i| o.hpo(HpoTermId::from(*i)).expect("term of the ontology")).collect() };
    let links: Vec<V> = terms(bg).iter().map(|t| V::T(vec![n(t.id().as_u32()), ln(&annot_ids(t, kind))])).collect();
    let mut recs: Vec<(u32, u64, u64, u64)> = match kind {
        0 => gene_enrichment(terms(bg), terms(sample)).iter().map(|e| (e.id().as_u32(), e.count(), f64_bits(e.pvalue()), f64_bits(e.enrichment()))).collect(),
        1 => omim_disease_enrichment(terms(bg), terms(sample)).iter().map(|e| (e.id().as_u32(), e.count(), f64_bits(e.pvalue()), f64_bits(e.enrichment()))).collect(),
        _ => orpha_disease_enrichment(terms(bg), terms(sample)).iter().map(|e| (e.id().as_u32(), e.count(), f64_bits(e.pvalue()), f64_bits(e.enrichment()))).collect(),
    };
    recs.sort();
    V::T(vec![V::L(links), V::L(recs.into_iter().map(|(id, c, p, f)| V::T(vec![n(id), n(c), V::L(vec![n(p)]), n(f)])).collect())])
}

/// root HP:1 + `npop` leaves; records of the chosen kind with prescribed (K, k) relative to a sample of size `nsample`
fn flat_world(rng: &mut Rng, npop: usize, kind: u8) -> (World, Vec<u32>, Vec<u32>, usize) {
    flat_world_with(rng, npop, kind, None, None)
}

/// `sparse = Some(m)`: K = n = m in a population many times larger, k spread over the LOWER half of the support — the
/// tail probabilities there are tiny (1e-6 .. 1e-30), so an evaluation as 1 - P[X < k] loses them to cancellation
fn flat_world_with(rng: &mut Rng, npop: usize, kind: u8, half: Option<usize>, sparse: Option<usize>) -> (World, Vec<u32>, Vec<u32>, usize) {
    let leaves: Vec<u32> = {
        let mut s: BTreeSet<u32> = BTreeSet::new();
        let dense = rng.chance(1, 2);
        while s.len() < npop {
            s.insert(if dense { 2 + s.len() as u32 } else { rng.range(2, 9_999_999) as u32 });
        }
        let mut v: Vec<u32> = s.into_iter().collect();
        rng.shuffle(&mut v);
        v
    };
    let nsample = if let Some(h) = half { h } else if let Some(m) = sparse { m } else { match rng.below(6) {
        0 => 1,
        1 => npop,
        2 => (npop + 1) / 2,
        _ => rng.range(1, npop as u64) as usize,
    } };
    let sample: Vec<u32> = leaves[..nsample].to_vec();
    let outside: Vec<u32> = leaves[nsample..].to_vec();
    let mut terms: Vec<(u32, String)> = vec![(1, "All".to_string())];
    terms.extend(leaves.iter().map(|id| (*id, format!("t{id}"))));
    let parents: Vec<(u32, u32)> = leaves.iter().map(|id| (1u32, *id)).collect();
    let mut annots: Vec<(u8, u32, u32, String)> = vec![];
    let mut rec_id = 1u32;
    let ngroups = if half.is_some() || sparse.is_some() { 1 } else { rng.range(1, 3) };
    for _ in 0..ngroups {
        // a group of records with the same K and growing k (monotonicity in k), boundary K + n > N over-weighted
        let big_k = if let Some(h) = half { h } else if let Some(m) = sparse { m } else { match rng.below(5) {
            0 => npop,
            1 => (npop - nsample).max(1),
            2 => (npop - nsample + 1).min(npop).max(1),
            _ => rng.range(1, npop as u64) as usize,
        } };
        let kmin = (big_k + nsample).saturating_sub(npop).max(1);
        let kmax = big_k.min(nsample);
        if kmin > kmax {
            continue;
        }
        let mut ks: BTreeSet<usize> = BTreeSet::new();
        ks.insert(kmin);
        ks.insert(kmax);
        for _ in 0..(if half.is_some() { 1 } else { 3 }) {
            ks.insert(rng.range(kmin as u64, kmax as u64) as usize);
        }
        if sparse.is_some() {
            ks.clear();
            for k in [1usize, 2, 3, 5, 8, 10, 12, 13, 16, 20] {
                if k >= kmin && k <= kmax / 2 {
                    ks.insert(k);
                }
            }
        }
        if half.is_some() {
            ks.remove(&kmax);
            ks.insert((kmin + kmax) / 2 + 1);
        }
        if kmin + 1 <= kmax {
            ks.insert(kmin + 1);
        }
        for k in ks {
            if big_k - k > outside.len() {
                continue;
            }
            let mut ins = sample.clone();
            rng.shuffle(&mut ins);
            let mut outs = outside.clone();
            rng.shuffle(&mut outs);
            for t in ins.iter().take(k).chain(outs.iter().take(big_k - k)) {
                annots.push((3 + kind, rec_id, *t, format!("r{rec_id}")));
            }
            rec_id += 1;
        }
    }
    // a record of another kind with the same numeric id (must not leak into the counts)
    annots.push((3 + (kind + 1) % 3, 1, leaves[0], "other".to_string()));
    rng.shuffle(&mut annots);
    let s = Script { version: (2024, 1, 1), terms, parents, annots, kindb: 0 };
    let mut bg = leaves.clone();
    if rng.chance(1, 3) {
        bg.push(1); // the root belongs to the background as well (linked to every record)
    }
    (World::Builder(s), bg, sample, rec_id as usize)
}

pub fn cases(rng: &mut Rng, count: usize, tier: &str) -> Vec<Case> {
    let mut out = vec![];
    while out.len() < count {
        let kind = rng.below(3) as u8;
        let mut tags: Vec<&'static str> = vec![];
        let huge = out.is_empty() || (tier == "thorough" && rng.chance(1, 60));
        let (w, bg, sample, nrec) = if huge {
            // a population far above the factorial table, K = n = N/2: the left tail of the
            // distribution underflows in f64 (pmf(k) = 0 for small k) while P[X >= k] = 1
            let npop = rng.range(1150, 1400) as usize;
            tags.push("above_table");
            tags.push("flat");
            tags.push("huge");
            tags.push("nt");
            flat_world_with(rng, npop, kind, Some(npop / 2), None)
        } else if out.len() == 1 || (tier == "thorough" && rng.chance(1, 60)) {
            let npop = rng.range(700, 1300) as usize;
            let m = rng.range(24, 48) as usize;
            tags.push("above_table");
            tags.push("flat");
            tags.push("sparse_lower_half");
            tags.push("nt");
            flat_world_with(rng, npop, kind, None, Some(m))
        } else if rng.chance(1, 3) {
            // general small ontologies (inheritance along is_a, several kinds)
            let mut o = Opts::default();
            o.min_terms = 3;
            o.max_terms = 14;
            o.max_records = 6;
            let (w, f) = world::gen_world(rng, o, &mut tags);
            let mut ids = f.ids();
            rng.shuffle(&mut ids);
            let nb = rng.range(1, ids.len() as u64) as usize;
            let bg: Vec<u32> = if rng.chance(1, 2) { ids.clone() } else { ids[..nb].to_vec() };
            let ns = rng.range(1, bg.len() as u64) as usize;
            let mut sample = bg.clone();
            rng.shuffle(&mut sample);
            sample.truncate(ns);
            tags.push("general");
            (w, bg, sample, f.n_records())
        } else {
            let npop = match rng.below(10) {
                0 => rng.range(1, 4) as usize,
                1 | 2 => rng.range(160, 185) as usize, // around the 170-entry factorial table
                3 => rng.range(171, if tier == "thorough" { 900 } else { 360 }) as usize,
                _ => rng.range(4, 70) as usize,
            };
            if npop > 170 {
                tags.push("above_table");
            } else {
                tags.push("below_table");
            }
            tags.push("flat");
            if npop >= 10 {
                tags.push("nt");
            }
            flat_world(rng, npop, kind)
        };
        tags.push(match kind {
            0 => "gene",
            1 => "omim",
            _ => "orpha",
        });
        let bl = w.build();
        let (bg2, sample2) = (bg.clone(), sample.clone());
        let obs = world::on_onto(&bl, move |ont: &Ontology| observe(ont, kind, &bg2, &sample2));
        let input = V::T(vec![w.to_v(), dump::ln_table(nrec.max(1)), n(kind), ln(&bg), ln(&sample)]);
        out.push(Case { input, obs, tags });
    }
    out
}
