//! C20: term-id text and byte conversions.
use crate::rng::Rng;
use crate::v::{bytes, ln, n, V};
use crate::Case;
use hpo::annotations::AnnotationId;
use hpo::HpoTermId;

fn enc_parse(s: &str) -> Option<V> {
    let s2 = s.to_string();
    crate::catch(move || match HpoTermId::try_from(s2.as_str()) {
        Ok(id) => V::L(vec![n(id.as_u32())]),
        Err(_) => V::L(vec![]),
    })
}

fn ids_case(ids: &[u32]) -> Case {
    let mut o = vec![];
    for id in ids {
        let t = HpoTermId::from(*id);
        let s = t.to_string();
        o.push(bytes(s.as_bytes()));
        o.push(enc_parse(&s).unwrap_or(V::L(vec![n(u64::MAX)])));
        let be = t.to_be_bytes();
        o.push(bytes(&be));
        o.push(V::L(vec![n(HpoTermId::from(be).as_u32())]));
    }
    Case { input: V::T(vec![n(0u32), ln(ids), V::L(vec![])]), obs: V::C("Ok", vec![V::L(o)]), tags: vec!["ids", "nt"] }
}

fn texts_case(texts: &[String]) -> Case {
    let mut o = vec![];
    let mut panicked = false;
    for t in texts {
        match enc_parse(t) {
            Some(v) => o.push(v),
            None => panicked = true,
        }
    }
    let obs = if panicked { V::C("Panic", vec![]) } else { V::C("Ok", vec![V::L(o)]) };
    let mut tags = vec!["texts"];
    if texts.iter().any(|t| !t.is_ascii()) {
        tags.push("nt");
        tags.push("multibyte");
    }
    Case { input: V::T(vec![n(1u32), V::L(vec![]), V::L(texts.iter().map(|t| bytes(t.as_bytes())).collect())]), obs, tags }
}

fn gen_text(rng: &mut Rng) -> String {
    const PIECES: &[&str] = &["H", "P", ":", "HP:", "0", "1", "9", "42", "0000123", "+", "-", " ", "é", "€", "😀", "a", "_", "4294967295", "4294967296", "00000000000", "١"];
    match rng.below(6) {
        0 => {
            // well-formed with random value, various widths
            let v = match rng.below(4) {
                0 => rng.below(10_000_000),
                1 => rng.range(4_294_967_290, 4_294_967_300),
                2 => rng.below(100),
                _ => rng.next() % 100_000_000_000,
            };
            match rng.below(3) {
                0 => format!("HP:{v:07}"),
                1 => format!("HP:{v}"),
                _ => format!("{}{v}", *rng.pick(&["HP:", "hp:", "XYZ", "HP€", "é:", "H😀", "€", "+++", "HP:+", "HP:-", "HP: "])),
            }
        }
        _ => {
            let k = rng.below(7);
            let mut s = String::new();
            for _ in 0..k {
                s.push_str(*rng.pick(PIECES));
            }
            s
        }
    }
}

pub fn cases(rng: &mut Rng, count: usize, _tier: &str) -> Vec<Case> {
    let mut out = vec![];
    // the complete id space, round-tripped on the implementation side
    let mut failures = 0u64;
    let probe = |id: u32, failures: &mut u64| {
        let t = HpoTermId::from(id);
        let s = t.to_string();
        let ok_text = HpoTermId::try_from(s.as_str()).map_or(false, |x| x == t);
        let ok_shape = s.len() >= 10 && s.starts_with("HP:") && s[3..].bytes().all(|b| b.is_ascii_digit()) && s[3..].parse::<u64>() == Ok(u64::from(id));
        let ok_bytes = HpoTermId::from(t.to_be_bytes()) == t;
        // the other numeric doors agree: from_u32, From<usize>, as_u32, to_usize
        let ok_doors = HpoTermId::from_u32(id) == t && HpoTermId::from(id as usize) == t && t.as_u32() == id && t.to_usize() == id as usize;
        if !(ok_text && ok_shape && ok_bytes && ok_doors) {
            *failures += 1;
        }
    };
    for id in 0..=10_000_001u32 {
        probe(id, &mut failures);
    }
    for id in [u32::MAX, u32::MAX - 1, 1 << 31, (1 << 31) - 1, 99_999_999, 100_000_000, 999_999_999, 1_000_000_000, 4_000_000_000] {
        probe(id, &mut failures);
    }
    out.push(Case { input: V::T(vec![n(2u32), V::L(vec![]), V::L(vec![])]), obs: V::C("Ok", vec![V::L(vec![V::L(vec![n(failures)])])]), tags: vec!["sweep_all_ids", "nt"] });
    // borders
    out.push(ids_case(&[0, 1, 9, 10, 118, 9_999_999, 10_000_000, 10_000_001, 99_999_999, 100_000_000, 999_999_999, 1_000_000_000, u32::MAX - 1, u32::MAX]));
    out.push(texts_case(&["".into(), "H".into(), "HP:".into(), "HP:1".into(), "HP€1".into(), "HPé1".into(), "H€123".into(), "😀".into(), "😀1".into(), "HP:+1".into(), "HP:+".into(), "HP:-1".into(), "HP:4294967295".into(), "HP:4294967296".into(), "HP:00000000000000000001".into(), "HP: 1".into(), "HP:1 ".into(), "HP:١".into()]));
    while out.len() < count {
        if rng.chance(1, 3) {
            let ids: Vec<u32> = (0..20)
                .map(|_| match rng.below(4) {
                    0 => rng.below(10_000_000) as u32,
                    1 => rng.next() as u32,
                    2 => 10u32.pow(rng.range(0, 9) as u32).wrapping_add(rng.below(3) as u32).wrapping_sub(1),
                    _ => rng.below(2000) as u32,
                })
                .collect();
            out.push(ids_case(&ids));
        } else {
            let texts: Vec<String> = (0..20).map(|_| gen_text(rng)).collect();
            out.push(texts_case(&texts));
        }
    }
    out
}
