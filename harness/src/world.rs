//! Worlds: the construction paths of an ontology (mirrors Run/World.v).
use crate::build::{self, Script};
use crate::dump;
use crate::v::V;
use hpo::{HpoError, Ontology};

#[derive(Clone, Debug)]
pub enum World {
    Builder(Script),
}

pub struct Built {
    pub codes: Vec<V>,
    pub result: Result<Ontology, HpoError>,
}

impl World {
    pub fn to_v(&self) -> V {
        match self {
            World::Builder(s) => V::C("WBuilder", vec![s.to_v()]),
        }
    }
    /// None = a call panicked
    pub fn build(&self) -> Option<Built> {
        match self {
            World::Builder(s) => build::run(s).map(|(codes, result)| Built { codes, result }),
        }
    }
}

/// input of a world case: (world, ln table)
pub fn winput(w: &World, max_n: usize) -> V {
    V::T(vec![w.to_v(), dump::ln_table(max_n)])
}

/// `wobs` of Run/World.v
pub fn wobs(b: &Option<Built>) -> V {
    match b {
        None => V::C("Panic", vec![]),
        Some(Built { codes, result: Ok(o) }) => V::C("Ok", vec![V::T(vec![V::L(codes.clone()), dump::dump_res(o)])]),
        Some(Built { codes, result: Err(e) }) => V::C("Ok", vec![V::T(vec![V::L(codes.clone()), dump::err_v(e)])]),
    }
}

/// observation for properties that only look at the final ontology: `res X`
pub fn on_onto<F: FnOnce(&Ontology) -> V + std::panic::UnwindSafe>(b: &Option<Built>, f: F) -> V {
    match b {
        None => V::C("Panic", vec![]),
        Some(Built { result: Err(e), .. }) => dump::err_v(e),
        Some(Built { result: Ok(o), .. }) => {
            let o: &Ontology = o;
            match crate::catch(std::panic::AssertUnwindSafe(|| f(o))) {
                Some(v) => V::C("Ok", vec![v]),
                None => V::C("Panic", vec![]),
            }
        }
    }
}
