//! Worlds: the construction paths of an ontology (mirrors Run/World.v).
use crate::build::{self, Script};
use crate::dump;
use crate::v::V;
use hpo::{HpoError, Ontology};

#[derive(Clone, Debug)]
pub enum World {
    Builder(Script),
    Bytes(Vec<u8>),
}

pub struct Built {
    pub codes: Vec<V>,
    pub result: Result<Ontology, HpoError>,
}

impl World {
    pub fn to_v(&self) -> V {
        match self {
            World::Builder(s) => V::C("WBuilder", vec![s.to_v()]),
            World::Bytes(b) => V::C("WBytes", vec![crate::v::bytes(b)]),
        }
    }
    /// None = a call panicked
    pub fn build(&self) -> Option<Built> {
        match self {
            World::Builder(s) => build::run(s).map(|(codes, result)| Built { codes, result }),
            World::Bytes(b) => crate::catch(std::panic::AssertUnwindSafe(|| Ontology::from_bytes(b))).map(|result| Built { codes: vec![], result }),
        }
    }
}

/// input of a world case: (world, ln table)
pub fn winput(w: &World, max_n: usize) -> V {
    V::T(vec![w.to_v(), dump::ln_table(max_n)])
}

/// `wobs` of Run/World.v
pub fn wobs(b: &Option<Built>) -> V {
    match b {
        None => V::C("Panic", vec![]),
        Some(Built { codes, result: Ok(o) }) => V::C("Ok", vec![V::T(vec![V::L(codes.clone()), dump::dump_res(o)])]),
        Some(Built { codes, result: Err(e) }) => V::C("Ok", vec![V::T(vec![V::L(codes.clone()), dump::err_v(e)])]),
    }
}

/// observation for properties that only look at the final ontology: `res X`
pub fn on_onto<F: FnOnce(&Ontology) -> V + std::panic::UnwindSafe>(b: &Option<Built>, f: F) -> V {
    match b {
        None => V::C("Panic", vec![]),
        Some(Built { result: Err(e), .. }) => dump::err_v(e),
        Some(Built { result: Ok(o), .. }) => {
            let o: &Ontology = o;
            match crate::catch(std::panic::AssertUnwindSafe(|| f(o))) {
                Some(v) => V::C("Ok", vec![v]),
                None => V::C("Panic", vec![]),
            }
        }
    }
}

use crate::gen::{self, Facts, Opts};
use crate::rng::Rng;

/// a world for a random fact set: the Builder API (random call order) or a binary file of
/// layout v1 / v2 / v3 (random record order).  Returns the facts the world can carry.
pub fn gen_world(rng: &mut Rng, mut o: Opts, tags: &mut Vec<&'static str>) -> (World, Facts) {
    match rng.below(5) {
        0 | 1 => {
            o.flags = false;
            let f = gen::gen_facts(rng, o);
            let kindb = if f.has(1) && f.has(118) { rng.below(2) as u8 } else { 0 };
            tags.push("builder");
            (World::Builder(build::script_from_facts(rng, &f, kindb)), f)
        }
        k => {
            o.flags = true;
            if rng.chance(7, 8) {
                o.roots_eighths = 8;
                o.min_terms = o.min_terms.max(2);
            }
            let f = gen::gen_facts(rng, o);
            let version = (k - 1) as u8; // 1, 2, 3
            tags.push(match version {
                1 => "bin_v1",
                2 => "bin_v2",
                _ => "bin_v3",
            });
            let fr = crate::bin::restrict(&f, version);
            (World::Bytes(crate::bin::encode(&fr, version, rng)), fr)
        }
    }
}
