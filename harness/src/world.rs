//! Worlds: the construction paths of an ontology (mirrors Run/World.v).
use crate::build::{self, Script};
use crate::dump;
use crate::v::V;
use hpo::{HpoError, Ontology};

#[derive(Clone, Debug)]
pub enum World {
    Builder(Script),
    Bytes(Vec<u8>),
    Sub(Box<World>, u32, Vec<u32>),
    /// from_standard (false) / from_standard_transitive (true) on a directory with the three files
    Jax { transitive: bool, obo: Vec<u8>, genes: Vec<u8>, hpoa: Vec<u8> },
    /// the script with `count` add_* calls (tag 0/1/2, ids first..) after connect_all_terms
    Bulk(Script, u8, u32, u32),
    /// `count` new_term calls (ids first, first+stride, ..; name "t"), nothing else, build_minimal
    Many { version: (u16, u8, u8), first: u32, stride: u32, count: u32 },
    /// the ontology of the inner world with user-chosen category / modifier groups
    /// (categories_mut() / modifier_mut())
    Custom(Box<World>, Vec<u32>, Vec<u32>),
    /// the ontology of the inner world after set_default_categories() and set_default_modifier()
    Defaults(Box<World>),
}

pub struct Built {
    pub codes: Vec<V>,
    pub result: Result<Ontology, HpoError>,
}

impl World {
    pub fn to_v(&self) -> V {
        match self {
            World::Builder(s) => V::C("WBuilder", vec![s.to_v()]),
            World::Bytes(b) => V::C("WBytes", vec![crate::v::bytes(b)]),
            World::Bulk(s, tag, first, count) => V::C("WBulk", vec![s.to_v(), crate::v::n(u32::from(*tag)), crate::v::n(*first), crate::v::n(*count)]),
            World::Many { version, first, stride, count } => V::C(
                "WMany",
                vec![
                    V::T(vec![crate::v::n(u32::from(version.0)), crate::v::n(u32::from(version.1)), crate::v::n(u32::from(version.2))]),
                    crate::v::n(*first),
                    crate::v::n(*stride),
                    crate::v::n(*count),
                ],
            ),
            World::Sub(w, root, leaves) => V::C("WSub", vec![w.to_v(), crate::v::n(*root), crate::v::ln(leaves)]),
            World::Custom(w, cats, mods) => V::C("WCustom", vec![w.to_v(), crate::v::ln(cats), crate::v::ln(mods)]),
            World::Defaults(w) => V::C("WDefaults", vec![w.to_v()]),
            World::Jax { transitive, obo, genes, hpoa } => V::C(
                "WJax",
                vec![V::C(if *transitive { "true" } else { "false" }, vec![]), crate::v::bytes(obo), crate::v::bytes(genes), crate::v::bytes(hpoa)],
            ),
        }
    }
    /// None = a call panicked
    pub fn build(&self) -> Option<Built> {
        match self {
            World::Builder(s) => build::run(s).map(|(codes, result)| Built { codes, result }),
            World::Bulk(s, tag, first, count) => build::run_bulk(s, Some((*tag, *first, *count))).map(|(codes, result)| Built { codes, result }),
            World::Many { version, first, stride, count } => {
                let (version, first, stride, count) = (*version, *first, *stride, *count);
                crate::catch(std::panic::AssertUnwindSafe(move || {
                    let mut b = hpo::builder::Builder::new();
                    b.set_hpo_version(version);
                    for i in 0..count {
                        b.new_term("t", first + i * stride);
                    }
                    let b = b.terms_complete().connect_all_terms();
                    b.calculate_information_content().map(|b| b.build_minimal())
                }))
                .map(|result| Built { codes: vec![], result })
            }
            World::Bytes(b) => {
                if b.len() % 3 == 0 {
                    // the same bytes through Ontology::from_binary (a file on disk)
                    static COUNTER: std::sync::atomic::AtomicU64 = std::sync::atomic::AtomicU64::new(0);
                    let k = COUNTER.fetch_add(1, std::sync::atomic::Ordering::SeqCst);
                    let path = std::env::temp_dir().join(format!("hpo-verif-bin-{}-{}.hpo", std::process::id(), k));
                    std::fs::write(&path, b).expect("write binary file");
                    let p = path.to_str().expect("utf-8 path").to_string();
                    let r = crate::catch(std::panic::AssertUnwindSafe(|| Ontology::from_binary(&p)));
                    let _ = std::fs::remove_file(&path);
                    r.map(|result| Built { codes: vec![], result })
                } else {
                    crate::catch(std::panic::AssertUnwindSafe(|| Ontology::from_bytes(b))).map(|result| Built { codes: vec![], result })
                }
            }
            World::Jax { transitive, obo, genes, hpoa } => {
                static COUNTER: std::sync::atomic::AtomicU64 = std::sync::atomic::AtomicU64::new(0);
                let k = COUNTER.fetch_add(1, std::sync::atomic::Ordering::SeqCst);
                let dir = std::env::temp_dir().join(format!("hpo-verif-jax-{}-{}", std::process::id(), k));
                std::fs::create_dir_all(&dir).expect("scratch directory");
                std::fs::write(dir.join("hp.obo"), obo).expect("write hp.obo");
                std::fs::write(dir.join(if *transitive { "phenotype_to_genes.txt" } else { "genes_to_phenotype.txt" }), genes).expect("write gene file");
                std::fs::write(dir.join("phenotype.hpoa"), hpoa).expect("write phenotype.hpoa");
                let d = dir.to_str().expect("utf-8 path").to_string();
                let tr = *transitive;
                let r = crate::catch(std::panic::AssertUnwindSafe(|| if tr { Ontology::from_standard_transitive(&d) } else { Ontology::from_standard(&d) }));
                let _ = std::fs::remove_dir_all(&dir);
                r.map(|result| Built { codes: vec![], result })
            }
            World::Defaults(w) => {
                let src = w.build()?;
                match src.result {
                    Err(e) => Some(Built { codes: src.codes, result: Err(e) }),
                    Ok(mut o) => {
                        let codes = src.codes;
                        crate::catch(std::panic::AssertUnwindSafe(move || match o.set_default_categories().and_then(|()| o.set_default_modifier()) {
                            Ok(()) => Ok(o),
                            Err(e) => Err(e),
                        }))
                        .map(|result| Built { codes, result })
                    }
                }
            }
            World::Custom(w, cats, mods) => {
                let src = w.build()?;
                match src.result {
                    Err(e) => Some(Built { codes: src.codes, result: Err(e) }),
                    Ok(mut o) => {
                        let codes = src.codes;
                        crate::catch(std::panic::AssertUnwindSafe(move || {
                            *o.categories_mut() = hpo::term::HpoGroup::from(cats.clone());
                            let m = o.modifier_mut();
                            m.clear();
                            for x in mods {
                                m.insert(*x);
                            }
                            o
                        }))
                        .map(|o| Built { codes, result: Ok(o) })
                    }
                }
            }
            World::Sub(w, root, leaves) => {
                let src = w.build()?;
                match src.result {
                    Err(e) => Some(Built { codes: vec![], result: Err(e) }),
                    Ok(o) => crate::catch(std::panic::AssertUnwindSafe(|| {
                        let rt = o.hpo(*root).expect("root in source ontology");
                        let ls: Vec<hpo::HpoTerm> = leaves.iter().map(|l| o.hpo(*l).expect("leaf in source ontology")).collect();
                        o.sub_ontology(rt, ls)
                    }))
                    .map(|result| Built { codes: vec![], result }),
                }
            }
        }
    }
}

/// input of a world case: (world, ln table)
pub fn winput(w: &World, max_n: usize) -> V {
    V::T(vec![w.to_v(), dump::ln_table(max_n)])
}

/// `wobs` of Run/World.v
pub fn wobs(b: &Option<Built>) -> V {
    match b {
        None => V::C("Panic", vec![]),
        Some(Built { codes, result: Ok(o) }) => V::C("Ok", vec![V::T(vec![V::L(codes.clone()), dump::dump_res(o)])]),
        Some(Built { codes, result: Err(e) }) => V::C("Ok", vec![V::T(vec![V::L(codes.clone()), dump::err_v(e)])]),
    }
}

/// observation for properties that only look at the final ontology: `res X`
pub fn on_onto<F: FnOnce(&Ontology) -> V + std::panic::UnwindSafe>(b: &Option<Built>, f: F) -> V {
    match b {
        None => V::C("Panic", vec![]),
        Some(Built { result: Err(e), .. }) => dump::err_v(e),
        Some(Built { result: Ok(o), .. }) => {
            let o: &Ontology = o;
            match crate::catch(std::panic::AssertUnwindSafe(|| f(o))) {
                Some(v) => V::C("Ok", vec![v]),
                None => V::C("Panic", vec![]),
            }
        }
    }
}

use crate::gen::{self, Facts, Opts};
use crate::rng::Rng;

/// a world for a random fact set: the Builder API (random call order) or a binary file of
/// layout v1 / v2 / v3 (random record order).  Returns the facts the world can carry.
/// root and leaves for a sub-ontology of the facts: mostly valid (leaves below root)
pub fn gen_sub_args(rng: &mut Rng, f: &Facts) -> (u32, Vec<u32>) {
    let ids = f.ids();
    // a root with descendants if possible
    let mut root = *rng.pick(&ids);
    for _ in 0..6 {
        let cand = *rng.pick(&ids);
        if ids.iter().filter(|x| f.ancestors(**x).contains(&cand)).count() >= 2 {
            root = cand;
            break;
        }
    }
    let below: Vec<u32> = ids.iter().copied().filter(|x| *x == root || f.ancestors(*x).contains(&root)).collect();
    let k = rng.range(1, 4) as usize;
    let mut leaves = vec![];
    for _ in 0..k {
        if rng.chance(1, 12) {
            leaves.push(*rng.pick(&ids)); // possibly outside root's subtree
        } else {
            leaves.push(*rng.pick(&below));
        }
    }
    // a leaf that is an ancestor of another leaf (strictly below root)
    if rng.chance(1, 2) {
        let between: Vec<u32> = f.ancestors(leaves[0]).into_iter().filter(|x| f.ancestors(*x).contains(&root)).collect();
        if !between.is_empty() {
            leaves.push(*rng.pick(&between));
        }
    }
    if rng.chance(1, 8) {
        leaves.push(root);
    }
    if rng.chance(1, 6) {
        let d = leaves[0];
        leaves.push(d); // duplicate
    }
    (root, leaves)
}

pub fn gen_world(rng: &mut Rng, o: Opts, tags: &mut Vec<&'static str>) -> (World, Facts) {
    let (w, f) = gen_world_base(rng, o, tags);
    (w, f)
}

/// like gen_world, but one time in `one_in` the category and modifier groups are replaced by
/// user-chosen ones: arbitrary terms of the ontology (not only children of the two standard roots),
/// sometimes an id that is no term, sometimes empty
pub fn gen_world_custom(rng: &mut Rng, o: Opts, tags: &mut Vec<&'static str>, one_in: u64) -> (World, Facts) {
    let (w, f) = gen_world_base(rng, o, tags);
    if rng.chance(1, one_in) {
        let ids = f.ids();
        let mut pickset = |rng: &mut Rng| -> Vec<u32> {
            let mut v: Vec<u32> = ids.iter().copied().filter(|_| rng.chance(1, 4)).collect();
            if rng.chance(1, 6) {
                v.push(rng.range(1, 400) as u32); // possibly not a term
            }
            if rng.chance(1, 8) {
                v.clear();
            }
            if rng.chance(1, 5) {
                if let Some(x) = v.first().copied() {
                    v.push(x); // duplicate
                }
            }
            rng.shuffle(&mut v);
            v
        };
        let cats = pickset(rng);
        let mods = pickset(rng);
        tags.push("custom_groups");
        let w = World::Custom(Box::new(w), cats, mods);
        if rng.chance(1, 4) {
            // ... and then the two public setters of the defaults: they replace whatever was set
            tags.push("defaults_set_again");
            (World::Defaults(Box::new(w)), f)
        } else {
            (w, f)
        }
    } else {
        (w, f)
    }
}

/// like gen_world, but one time in five the world is a sub-ontology of the generated one;
/// returns the facts of the *source* world
pub fn gen_world_sub(rng: &mut Rng, o: Opts, tags: &mut Vec<&'static str>) -> (World, Facts) {
    gen_world_sub_p(rng, o, tags, 5)
}

pub fn gen_world_sub_p(rng: &mut Rng, o: Opts, tags: &mut Vec<&'static str>, one_in: u64) -> (World, Facts) {
    let (w, f) = gen_world_base(rng, o, tags);
    if rng.chance(1, one_in) {
        let (root, leaves) = gen_sub_args(rng, &f);
        tags.push("sub");
        (World::Sub(Box::new(w), root, leaves), f)
    } else {
        (w, f)
    }
}

fn gen_world_base(rng: &mut Rng, mut o: Opts, tags: &mut Vec<&'static str>) -> (World, Facts) {
    match rng.below(6) {
        5 => {
            // the JAX text files (hp.obo + gene file + phenotype.hpoa) through from_standard(_transitive)
            o.flags = true;
            o.long_names = false;
            if rng.chance(7, 8) {
                o.roots_eighths = 8;
                o.min_terms = o.min_terms.max(2);
            }
            let mut f = gen::gen_facts(rng, o);
            f.genes.retain(|r| !r.terms.is_empty());
            f.omim.retain(|r| !r.terms.is_empty());
            f.orpha.retain(|r| !r.terms.is_empty());
            // an ORPHA disease with the numeric id, name and terms of an OMIM disease
            if rng.chance(1, 3) && !f.omim.is_empty() {
                let src = rng.pick(&f.omim).clone();
                if !f.orpha.iter().any(|r| r.id == src.id) {
                    f.orpha.push(src);
                    tags.push("twin_disease");
                }
            }
            let transitive = rng.chance(1, 2);
            tags.push("jax");
            let genes = if transitive { crate::jax::render_phenotype_to_genes(rng, &f) } else { crate::jax::render_genes_to_phenotype(rng, &f) };
            (World::Jax { transitive, obo: crate::jax::render_obo(rng, &f), genes, hpoa: crate::jax::render_hpoa(rng, &f) }, f)
        }
        0 | 1 => {
            o.flags = false;
            let f = gen::gen_facts(rng, o);
            let kindb = if f.has(1) && f.has(118) { rng.below(2) as u8 } else { 0 };
            tags.push("builder");
            (World::Builder(build::script_from_facts(rng, &f, kindb)), f)
        }
        k => {
            o.flags = true;
            if rng.chance(7, 8) {
                o.roots_eighths = 8;
                o.min_terms = o.min_terms.max(2);
            }
            let f = gen::gen_facts(rng, o);
            let version = (k - 1) as u8; // 1, 2, 3
            tags.push(match version {
                1 => "bin_v1",
                2 => "bin_v2",
                _ => "bin_v3",
            });
            let fr = crate::bin::restrict(&f, version);
            (World::Bytes(crate::bin::encode(&fr, version, rng)), fr)
        }
    }
}
