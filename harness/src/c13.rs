//! C13: HpoSet filters, replacements, aggregates.
use crate::dump;
use crate::gen::Opts;
use crate::rng::Rng;
use crate::v::{ln, n, nu, V};
use crate::world;
use crate::Case;
use hpo::annotations::AnnotationId;
use hpo::term::HpoGroup;
use hpo::{HpoSet, HpoTermId, Ontology};
use std::collections::BTreeSet;

/// the ids of a set, observed without resolving them: `contains` over a universe (+ len)
fn members(s: &HpoSet, universe: &[u32]) -> V {
    let ids: Vec<u32> = universe.iter().copied().filter(|id| s.contains(&HpoTermId::from(*id))).collect();
    assert_eq!(ids.len(), s.len(), "a member outside the universe");
    ln(&ids)
}

fn mk<'a>(o: &'a Ontology, ids: &[u32]) -> HpoSet<'a> {
    let g: HpoGroup = ids.iter().map(|x| HpoTermId::from(*x)).collect();
    HpoSet::new(o, g)
}

fn sorted_ids<T: AnnotationId>(it: impl Iterator<Item = T>) -> Vec<u32> {
    let mut v: Vec<u32> = it.map(|x| x.as_u32()).collect();
    v.sort();
    v
}

fn obs_set(o: &Ontology, ids: &[u32], universe: &[u32]) -> V {
    let r = crate::catch(std::panic::AssertUnwindSafe(|| {
        let s = mk(o, ids);
        let ic_v = |x: &HpoSet| match x.information_content() {
            Ok(ic) => V::C("Ok", vec![V::T(vec![n(dump::f32_bits(ic.gene())), n(dump::f32_bits(ic.omim_disease()))])]),
            Err(e) => dump::err_v(&e),
        };
        // the aggregates of a set are asked for, the set is changed in place, and they are asked for again
        // (each in its own catch_unwind: a replacement that is not a term makes them panic)
        let agg = |x: &HpoSet| match crate::catch(std::panic::AssertUnwindSafe(|| V::T(vec![ln(&sorted_ids(x.gene_ids().into_iter())), ic_v(x)]))) {
            Some(v) => V::C("Ok", vec![v]),
            None => V::C("Panic", vec![]),
        };
        let a = members(&s.child_nodes(), universe);
        let b = members(&s.without_modifier(), universe);
        let mut s2 = mk(o, ids);
        let _ = agg(&s2);
        s2.remove_modifier();
        let b2 = members(&s2, universe);
        let after_b = agg(&s2);
        let c = members(&s.without_obsolete(), universe);
        let mut s3 = mk(o, ids);
        let _ = agg(&s3);
        s3.remove_obsolete();
        let c2 = members(&s3, universe);
        let after_c = agg(&s3);
        let d = members(&s.with_replaced_obsolete(), universe);
        let mut s4 = mk(o, ids);
        let _ = agg(&s4);
        s4.replace_obsolete();
        let d2 = members(&s4, universe);
        let after_d = agg(&s4);
        let g = ln(&sorted_ids(s.gene_ids().into_iter()));
        let m = ln(&sorted_ids(s.omim_disease_ids().into_iter()));
        let r = ln(&sorted_ids(s.orpha_disease_ids().into_iter()));
        let mut cats: Vec<(u32, usize)> = s.categories().into_iter().map(|(k, v)| (k.as_u32(), v)).collect();
        cats.sort();
        let cats = V::L(cats.into_iter().map(|(k, v)| V::T(vec![n(k), nu(v)])).collect());
        let ic = ic_v(&s);
        V::T(vec![a, b, b2, c, c2, d, d2, g, m, r, cats, ic, V::L(vec![after_b, after_c, after_d])])
    }));
    match r {
        Some(v) => V::C("Ok", vec![v]),
        None => V::C("Panic", vec![]),
    }
}

pub fn cases(rng: &mut Rng, count: usize, tier: &str) -> Vec<Case> {
    let mut out = vec![];
    while out.len() < count {
        let mut o = Opts::default();
        o.min_terms = 3;
        o.max_terms = if tier == "thorough" && rng.chance(1, 6) { 24 } else { 12 };
        o.roots_eighths = 6;
        o.max_records = 4;
        let mut tags = vec![];
        if out.is_empty() {
            // the first case of every run: sets of more than 30 members (beyond the inline capacity of the id groups)
            o.min_terms = 34;
            o.max_terms = 40;
            tags.push("large_sets");
        }
        let (w, f) = if out.is_empty() {
            // (a plain world that builds: the point of this case is the size of its sets)
            o.roots_eighths = 8;
            loop {
                let mut t2 = vec![];
                let (w, f) = world::gen_world(rng, o, &mut t2);
                if matches!(w.build(), Some(world::Built { result: Ok(_), .. })) {
                    tags.extend(t2);
                    break (w, f);
                }
            }
        } else {
            world::gen_world_custom(rng, o, &mut tags, 4)
        };
        let bl = w.build();
        let ids = f.ids();
        let mut universe: BTreeSet<u32> = ids.iter().copied().collect();
        universe.extend(f.terms.iter().filter_map(|t| t.replacement));
        let universe: Vec<u32> = universe.into_iter().collect();
        let nsets = if tier == "thorough" { 12 } else { 6 };
        let mut sets: Vec<Vec<u32>> = vec![vec![], ids.clone()];
        for _ in 0..nsets {
            let mut s: Vec<u32> = ids.iter().copied().filter(|_| rng.chance(1, 3)).collect();
            // an ancestor together with a descendant
            if let Some((c, p)) = (!f.links.is_empty()).then(|| *rng.pick(&f.links)) {
                if rng.chance(1, 2) {
                    s.push(c);
                    s.push(p);
                }
            }
            // a replaced term together with its replacement (collision); every such pair in turn,
            // so that chains a -> b -> c put a and b into one set
            let pairs: Vec<(u32, u32)> = f.terms.iter().filter_map(|t| t.replacement.filter(|r| f.has(*r)).map(|r| (t.id, r))).collect();
            if !pairs.is_empty() && rng.chance(2, 3) {
                let (a, b) = *rng.pick(&pairs);
                s.push(a);
                s.push(b);
                // and the replacement's own replacement chain partner
                if let Some((_, c)) = pairs.iter().find(|(x, _)| *x == b) {
                    if rng.chance(1, 2) {
                        s.push(*c);
                    }
                }
            }
            rng.shuffle(&mut s);
            sets.push(s);
        }
        let sets_v = V::L(sets.iter().map(|s| ln(s)).collect());
        let obs = world::on_onto(&bl, |ont: &Ontology| V::T(vec![dump::dump_onto(ont), V::L(sets.iter().map(|s| obs_set(ont, s, &universe)).collect())]));
        if f.terms.iter().any(|t| t.obsolete) || f.terms.iter().any(|t| t.replacement.is_some()) {
            tags.push("nt");
        }
        out.push(Case { input: V::T(vec![world::winput(&w, f.n_records()), sets_v]), obs, tags });
    }
    out
}
