//! C07 (round trip) and C08 (decoder honours layouts, rejects truncated / extended files).
use crate::bin;
use crate::build;
use crate::dump;
use crate::gen::{self, Opts};
use crate::rng::Rng;
use crate::v::{b, bytes, n, V};
use crate::world::{self, World};
use crate::Case;
use hpo::Ontology;

fn res_dump(r: Option<Result<Ontology, hpo::HpoError>>) -> V {
    match r {
        None => V::C("Panic", vec![]),
        Some(Ok(o)) => dump::dump_res(&o),
        Some(Err(e)) => dump::err_v(&e),
    }
}

fn class(bs: &[u8]) -> V {
    match crate::catch(std::panic::AssertUnwindSafe(|| Ontology::from_bytes(bs).map(|_| ()))) {
        None => n(2u32),
        Some(Ok(())) => n(0u32),
        Some(Err(_)) => n(1u32),
    }
}

fn compare_empty(a: &Ontology, bb: &Ontology) -> bool {
    let c = a.compare(bb);
    c.added_hpo_terms().is_empty()
        && c.removed_hpo_terms().is_empty()
        && c.changed_hpo_terms().is_empty()
        && c.added_genes().is_empty()
        && c.removed_genes().is_empty()
        && c.changed_genes().is_empty()
        && c.added_omim_diseases().is_empty()
        && c.removed_omim_diseases().is_empty()
        && c.changed_omim_diseases().is_empty()
        && c.added_orpha_diseases().is_empty()
        && c.removed_orpha_diseases().is_empty()
        && c.changed_orpha_diseases().is_empty()
}

pub fn cases_c07(rng: &mut Rng, count: usize, tier: &str) -> Vec<Case> {
    let mut out = vec![];
    while out.len() < count {
        let mut o = Opts::default();
        o.max_terms = if tier == "thorough" && rng.chance(1, 10) { 40 } else { 10 };
        o.min_terms = 2;
        o.roots_eighths = 7;
        o.long_names = rng.chance(1, 3);
        o.max_records = 3;
        let mut tags = vec![];
        if o.long_names {
            tags.push("long_names");
        }
        // over-long names only reach an ontology through the Builder (the binary term record
        // cannot hold them); binary worlds are cut by bin::restrict
        let (w, f) = world::gen_world(rng, o, &mut tags);
        let bl = w.build();
        let obs = world::on_onto(&bl, |ont: &Ontology| {
            let raw = ont.as_bytes();
            let canon = bin::canonical_v3(&raw).unwrap_or(raw.clone());
            let reloaded = crate::catch(std::panic::AssertUnwindSafe(|| Ontology::from_bytes(&raw)));
            let flag = match &reloaded {
                Some(Ok(r)) => compare_empty(ont, r),
                _ => false,
            };
            V::T(vec![bytes(&canon), dump::dump_onto(ont), res_dump(reloaded), b(flag)])
        });
        if f.has(1) && f.has(118) && f.terms.len() >= 4 {
            tags.push("nt");
        }
        out.push(Case { input: world::winput(&w, f.n_records()), obs, tags });
    }
    out
}

pub fn cases_c08(rng: &mut Rng, count: usize, tier: &str) -> Vec<Case> {
    let mut out = vec![];
    while out.len() < count {
        let mut o = Opts::default();
        o.max_terms = if tier == "thorough" { 9 } else { 6 };
        o.min_terms = 2;
        o.roots_eighths = 7;
        o.flags = true;
        o.max_records = 2;
        let f0 = gen::gen_facts(rng, o);
        let version = rng.range(1, 3) as u8;
        let f = bin::restrict(&f0, version);
        let file = bin::encode(&f, version, rng);
        let script = build::script_from_facts(rng, &f, 1);
        let flags: Vec<V> = f
            .terms
            .iter()
            .map(|t| V::T(vec![n(t.id), b(t.obsolete), crate::v::optn(t.replacement)]))
            .collect();
        let mut suffixes: Vec<Vec<u8>> = vec![vec![0], vec![0, 0, 0, 0], vec![0, 0, 0, 4, 1, 2, 3, 4]];
        suffixes.push((0..rng.range(1, 8)).map(|_| rng.below(256) as u8).collect());
        let vbytes: Vec<u8> = {
            let mut v = vec![0u8, 1, 2, 3, 4, 255];
            for _ in 0..6 {
                v.push(rng.below(256) as u8);
            }
            v
        };
        let input = V::T(vec![
            bytes(&file),
            n(version),
            script.to_v(),
            V::L(flags),
            V::L(suffixes.iter().map(|s| bytes(s)).collect()),
            V::L(vbytes.iter().map(|x| n(*x)).collect()),
            dump::ln_table(f.n_records()),
        ]);
        let valid = res_dump(crate::catch(std::panic::AssertUnwindSafe(|| Ontology::from_bytes(&file))));
        let built = match build::run(&script) {
            None => V::C("Panic", vec![]),
            Some((_, Ok(o))) => dump::dump_res(&o),
            Some((_, Err(e))) => dump::err_v(&e),
        };
        let truncs: Vec<V> = (0..file.len()).map(|k| class(&file[..k])).collect();
        let sfx: Vec<V> = suffixes
            .iter()
            .map(|s| {
                let mut x = file.clone();
                x.extend_from_slice(s);
                class(&x)
            })
            .collect();
        let vb: Vec<V> = vbytes
            .iter()
            .map(|v| {
                if version == 1 {
                    // a v1 body behind a header announcing version *v
                    let mut x = b"HPO".to_vec();
                    x.push(*v);
                    x.extend_from_slice(&file);
                    class(&x)
                } else {
                    let mut x = file.clone();
                    x[3] = *v;
                    class(&x)
                }
            })
            .collect();
        let mut tags = vec![match version {
            1 => "v1",
            2 => "v2",
            _ => "v3",
        }];
        if f.has(1) && f.has(118) {
            tags.push("nt");
        }
        out.push(Case { input, obs: V::T(vec![valid, built, V::L(truncs), V::L(sfx), V::L(vb)]), tags });
    }
    out
}
