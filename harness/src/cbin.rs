//! C07 (round trip) and C08 (decoder honours layouts, rejects truncated / extended files).
use crate::bin;
use crate::build;
use crate::dump;
use crate::gen::{self, Opts};
use crate::rng::Rng;
use crate::v::{b, bytes, n, V};
use crate::world::{self, World};
use crate::Case;
use hpo::Ontology;

fn res_dump(r: Option<Result<Ontology, hpo::HpoError>>) -> V {
    match r {
        None => V::C("Panic", vec![]),
        Some(Ok(o)) => dump::dump_res(&o),
        Some(Err(e)) => dump::err_v(&e),
    }
}

/// Ontology::from_bytes on arbitrary (damaged) bytes, in a process of its own (this binary in `load` mode):
/// a term record that announces length 0 makes the loader read the same record forever, and a parent section that
/// closes an is_a cycle makes connect_all_terms recurse until the stack overflows (the process aborts; nothing to
/// catch).  The model runs out of fuel on exactly those inputs, so a child that is killed after 4 seconds or dies
/// from a signal is reported as `Fuel`; everything else is the child's own report (dump, error or panic).
fn load_bounded(x: Vec<u8>) -> (bool, V) {
    use std::io::Read;
    use std::process::{Command, Stdio};
    let hex: String = x.iter().map(|b| format!("{b:02x}")).collect();
    let exe = std::env::current_exe().expect("current_exe");
    let mut child = Command::new(exe).arg("load").arg(hex).stdout(Stdio::piped()).stderr(Stdio::null()).spawn().expect("spawn load child");
    let start = std::time::Instant::now();
    let mut out = String::new();
    // the report is one line of a few kB at most (an ontology of < 10 terms): read after exit
    loop {
        match child.try_wait().expect("try_wait") {
            Some(status) => {
                if let Some(mut so) = child.stdout.take() {
                    let _ = so.read_to_string(&mut out);
                }
                if !status.success() || out.trim().is_empty() {
                    return (false, V::C("Fuel", vec![]));
                }
                let line = out.trim().to_string();
                let accepted = line.starts_with("(Ok");
                return (accepted, V::Raw(line));
            }
            None => {
                if start.elapsed() > std::time::Duration::from_secs(4) {
                    let _ = child.kill();
                    let _ = child.wait();
                    return (false, V::C("Fuel", vec![]));
                }
                std::thread::sleep(std::time::Duration::from_micros(300));
            }
        }
    }
}

pub fn load_child(hex: &str) {
    let bytes_in: Vec<u8> = (0..hex.len() / 2).map(|i| u8::from_str_radix(&hex[2 * i..2 * i + 2], 16).expect("hex")).collect();
    let r = crate::catch(std::panic::AssertUnwindSafe(|| Ontology::from_bytes(&bytes_in)));
    println!("{}", res_dump(r));
}

fn class(bs: &[u8]) -> V {
    match crate::catch(std::panic::AssertUnwindSafe(|| Ontology::from_bytes(bs).map(|_| ()))) {
        None => n(2u32),
        Some(Ok(())) => n(0u32),
        Some(Err(_)) => n(1u32),
    }
}

fn compare_empty(a: &Ontology, bb: &Ontology) -> bool {
    let c = a.compare(bb);
    c.added_hpo_terms().is_empty()
        && c.removed_hpo_terms().is_empty()
        && c.changed_hpo_terms().is_empty()
        && c.added_genes().is_empty()
        && c.removed_genes().is_empty()
        && c.changed_genes().is_empty()
        && c.added_omim_diseases().is_empty()
        && c.removed_omim_diseases().is_empty()
        && c.changed_omim_diseases().is_empty()
        && c.added_orpha_diseases().is_empty()
        && c.removed_orpha_diseases().is_empty()
        && c.changed_orpha_diseases().is_empty()
}

pub fn cases_c07(rng: &mut Rng, count: usize, tier: &str) -> Vec<Case> {
    let mut out = vec![];
    while out.len() < count {
        let mut o = Opts::default();
        o.max_terms = if tier == "thorough" && rng.chance(1, 10) { 40 } else { 10 };
        o.min_terms = 2;
        o.roots_eighths = 7;
        o.long_names = rng.chance(1, 3);
        o.max_records = 3;
        let mut tags = vec![];
        if o.long_names {
            tags.push("long_names");
        }
        // over-long names only reach an ontology through the Builder (the binary term record
        // cannot hold them); binary worlds are cut by bin::restrict
        let (w, f) = world::gen_world(rng, o, &mut tags);
        let bl = w.build();
        let obs = world::on_onto(&bl, |ont: &Ontology| {
            let raw = ont.as_bytes();
            let canon = bin::canonical_v3(&raw).unwrap_or(raw.clone());
            let reloaded = crate::catch(std::panic::AssertUnwindSafe(|| Ontology::from_bytes(&raw)));
            let flag = match &reloaded {
                Some(Ok(r)) => compare_empty(ont, r),
                _ => false,
            };
            V::T(vec![bytes(&canon), dump::dump_onto(ont), res_dump(reloaded), b(flag)])
        });
        if f.has(1) && f.has(118) && f.terms.len() >= 4 {
            tags.push("nt");
        }
        out.push(Case { input: world::winput(&w, f.n_records()), obs, tags });
    }
    out
}

pub fn cases_c08(rng: &mut Rng, count: usize, tier: &str) -> Vec<Case> {
    let mut out = vec![];
    while out.len() < count {
        let mut o = Opts::default();
        o.max_terms = if tier == "thorough" { 9 } else { 6 };
        o.min_terms = 2;
        o.roots_eighths = 7;
        o.flags = true;
        o.max_records = 2;
        let f0 = gen::gen_facts(rng, o);
        let version = rng.range(1, 3) as u8;
        let f = bin::restrict(&f0, version);
        let file = bin::encode(&f, version, rng);
        let script = build::script_from_facts(rng, &f, 1);
        let flags: Vec<V> = f
            .terms
            .iter()
            .map(|t| V::T(vec![n(t.id), b(t.obsolete), crate::v::optn(t.replacement)]))
            .collect();
        let mut suffixes: Vec<Vec<u8>> = vec![vec![0], vec![0, 0, 0, 0], vec![0, 0, 0, 4, 1, 2, 3, 4]];
        suffixes.push((0..rng.range(1, 8)).map(|_| rng.below(256) as u8).collect());
        let vbytes: Vec<u8> = {
            let mut v = vec![0u8, 1, 2, 3, 4, 255];
            for _ in 0..6 {
                v.push(rng.below(256) as u8);
            }
            v
        };
        // single-byte mutants of the file: a random value, a neighbouring value, 0, or a copy of another byte of the
        // file (the last one produces repeated and absent ids more often than chance would)
        let mut muts: Vec<(usize, u8)> = vec![];
        for _ in 0..(if tier == "thorough" { 24 } else { 12 }) {
            let pos = rng.below(file.len() as u64) as usize;
            let val = match rng.below(5) {
                0 => rng.below(256) as u8,
                1 => file[pos].wrapping_add(1),
                2 => file[pos].wrapping_sub(1),
                3 => 0,
                _ => file[rng.below(file.len() as u64) as usize],
            };
            if val != file[pos] {
                muts.push((pos, val));
            }
        }
        let input = V::T(vec![
            bytes(&file),
            n(version),
            script.to_v(),
            V::L(flags),
            V::L(suffixes.iter().map(|s| bytes(s)).collect()),
            V::L(vbytes.iter().map(|x| n(*x)).collect()),
            // a mutated length field can move records from one annotation section into another
            dump::ln_table(f.genes.len() + f.omim.len() + f.orpha.len() + 1),
            V::L(muts.iter().map(|(p, v)| V::T(vec![n(*p as u32), n(*v)])).collect()),
        ]);
        let valid = res_dump(crate::catch(std::panic::AssertUnwindSafe(|| Ontology::from_bytes(&file))));
        let built = match build::run(&script) {
            None => V::C("Panic", vec![]),
            Some((_, Ok(o))) => dump::dump_res(&o),
            Some((_, Err(e))) => dump::err_v(&e),
        };
        let truncs: Vec<V> = (0..file.len()).map(|k| class(&file[..k])).collect();
        let sfx: Vec<V> = suffixes
            .iter()
            .map(|s| {
                let mut x = file.clone();
                x.extend_from_slice(s);
                class(&x)
            })
            .collect();
        let vb: Vec<V> = vbytes
            .iter()
            .map(|v| {
                if version == 1 {
                    // a v1 body behind a header announcing version *v
                    let mut x = b"HPO".to_vec();
                    x.push(*v);
                    x.extend_from_slice(&file);
                    class(&x)
                } else {
                    let mut x = file.clone();
                    x[3] = *v;
                    class(&x)
                }
            })
            .collect();
        let mut accepted_mutants = 0usize;
        let mut hung_mutants = 0usize;
        let mt: Vec<V> = muts
            .iter()
            .map(|(p, v)| {
                let mut x = file.clone();
                x[*p] = *v;
                let (accepted, d) = load_bounded(x);
                if accepted {
                    accepted_mutants += 1;
                }
                if matches!(&d, V::C(c, _) if *c == "Fuel") {
                    hung_mutants += 1;
                }
                d
            })
            .collect();
        let mut tags = vec![match version {
            1 => "v1",
            2 => "v2",
            _ => "v3",
        }];
        if f.has(1) && f.has(118) {
            tags.push("nt");
        }
        if accepted_mutants > 0 {
            tags.push("accepted_mutant");
        }
        if hung_mutants > 0 {
            tags.push("nonterminating_mutant");
        }
        out.push(Case { input, obs: V::T(vec![valid, built, V::L(truncs), V::L(sfx), V::L(vb), V::L(mt)]), tags });
    }
    out
}
