//! C17: hierarchical clustering (Linkage::{union, single, complete, average}).
use crate::dump::f32_bits;
use crate::rng::Rng;
use crate::v::{ln, n, nu, V};
use crate::Case;
use hpo::annotations::AnnotationId;
use hpo::builder::Builder;
use hpo::stats::Linkage;
use hpo::term::HpoGroup;
use hpo::utils::Combinations;
use hpo::{HpoSet, HpoTermId, Ontology};
use std::cell::RefCell;
use std::collections::{BTreeSet, HashMap};

fn flat_ontology(ids: &BTreeSet<u32>) -> Ontology {
    let mut b = Builder::new();
    for id in ids {
        b.new_term(&format!("t{id}"), *id);
    }
    let b = b.terms_complete().connect_all_terms();
    b.calculate_information_content().expect("ic").build_minimal()
}

/// the same terms with random is_a links (every term but the first gets 0-2 parents among the
/// earlier ones): input sets and their unions then contain terms together with their ancestors
fn tree_ontology(ids: &BTreeSet<u32>, rng: &mut Rng) -> Ontology {
    let mut b = Builder::new();
    for id in ids {
        b.new_term(&format!("t{id}"), *id);
    }
    let mut b = b.terms_complete();
    let v: Vec<u32> = ids.iter().copied().collect();
    for (i, c) in v.iter().enumerate().skip(1) {
        for _ in 0..rng.range(0, 3) {
            let p = v[rng.below(i as u64) as usize];
            b.add_parent(p, *c).expect("both terms exist");
        }
    }
    let b = b.connect_all_terms();
    b.calculate_information_content().expect("ic").build_minimal()
}

fn set_ids(s: &HpoSet) -> Vec<u32> {
    s.iter().map(|t| t.id().as_u32()).collect()
}

/// the user's distance: a pure function of the two sets' contents (mirrors Run/C17.v dist_fn)
fn dist_fn(table: &HashMap<(u32, u32), f32>, mode: u8, a: &[u32], b: &[u32]) -> f32 {
    let mut vals = vec![];
    for x in a {
        for y in b {
            vals.push(table[&(*x, *y)]);
        }
    }
    if vals.is_empty() {
        return 0.0;
    }
    let mut mn = vals[0];
    let mut mx = vals[0];
    for z in &vals[1..] {
        if *z < mn {
            mn = *z;
        }
        if *z > mx {
            mx = *z;
        }
    }
    match mode {
        0 => mn,
        1 => mx,
        2 => mn + f32::from((a.len() + b.len()) as u16) / 64.0,
        // shrinks when sets grow: under union linkage a later merge can be closer than an earlier one
        _ => mn / f32::from((a.len() + b.len()) as u16),
    }
}

/// A clustering of MANY sets (beyond 255), checked on the crate's side only: the model would need hours for it, so
/// this is an oracle inside the harness, not a Coq evaluation.  260-300 one-term sets, distinct distances, all four
/// methods: n-1 merges, merge k joins two nodes below n+k that were not merged before, its size is the sum of its
/// parts, the last merge has size n, indicies() is a permutation of 0..n.  (The statement spec_C17 says the same
/// of every generated case; here only the sizes are out of its reach.)
fn big_clustering_is_a_dendrogram(rng: &mut Rng) -> bool {
    let nsets = rng.range(260, 300) as usize;
    let ids: BTreeSet<u32> = (0..nsets as u32).map(|i| 10 + 3 * i).collect();
    let ont = flat_ontology(&ids);
    let idv: Vec<u32> = ids.iter().copied().collect();
    // a distinct distance for every unordered pair of terms
    let w = nsets as u64 + 7;
    let d = |a: u32, b: u32| -> f32 {
        let (x, y) = if a < b { (a, b) } else { (b, a) };
        let k = (u64::from(x) * w + u64::from(y)) % 1_000_003;
        1.0 + (k as f32) / 1_048_576.0 + (u64::from(x) * w + u64::from(y)) as f32 / 1.0e9
    };
    for method in 0..4u8 {
        let ok = crate::catch(std::panic::AssertUnwindSafe(|| {
            let hs: Vec<HpoSet> = idv.iter().map(|x| HpoSet::new(&ont, std::iter::once(HpoTermId::from(*x)).collect::<HpoGroup>())).collect();
            let cb = |combs: Combinations<HpoSet<'_>>| -> Vec<f32> {
                combs
                    .map(|(a, b)| {
                        let (ia, ib) = (set_ids(a), set_ids(b));
                        let mut m = f32::INFINITY;
                        for x in &ia {
                            for y in &ib {
                                let v = d(*x, *y);
                                if v < m {
                                    m = v;
                                }
                            }
                        }
                        m
                    })
                    .collect()
            };
            let l = match method {
                0 => Linkage::union(hs, cb),
                1 => Linkage::single(hs, cb),
                2 => Linkage::complete(hs, cb),
                _ => Linkage::average(hs, cb),
            };
            let cl: Vec<(usize, usize, usize)> = l.cluster().map(|c| (c.lhs(), c.rhs(), c.len())).collect();
            if cl.len() != nsets - 1 {
                return false;
            }
            let mut size = vec![1usize; nsets];
            let mut used = vec![false; 2 * nsets];
            for (k, (a, b, z)) in cl.iter().enumerate() {
                if *a >= nsets + k || *b >= nsets + k || a == b || used[*a] || used[*b] {
                    return false;
                }
                used[*a] = true;
                used[*b] = true;
                if *z != size[*a] + size[*b] {
                    return false;
                }
                size.push(*z);
            }
            if size[size.len() - 1] != nsets {
                return false;
            }
            let mut idx = l.indicies();
            idx.sort_unstable();
            idx == (0..nsets).collect::<Vec<usize>>()
        }));
        if ok != Some(true) {
            return false;
        }
    }
    true
}

pub fn cases(rng: &mut Rng, count: usize, tier: &str) -> Vec<Case> {
    let mut out = vec![];
    let big_ok = big_clustering_is_a_dendrogram(rng);
    while out.len() < count {
        let nsets = match rng.below(10) {
            0 => 2,
            1 => 3,
            _ => rng.range(2, if tier == "thorough" { 20 } else { 9 }) as usize,
        };
        let nterms = rng.range(nsets as u64, nsets as u64 * 2 + 2) as usize;
        let universe: Vec<u32> = crate::gen::gen_ids(rng, nterms, true, &[]);
        let ids: BTreeSet<u32> = universe.iter().copied().collect();
        let hier = rng.chance(1, 2);
        let ont = if hier { tree_ontology(&ids, rng) } else { flat_ontology(&ids) };
        // symmetric table of pairwise term distances, all values distinct (no ties among the inputs)
        let mut used: BTreeSet<u32> = BTreeSet::new();
        let mut table: HashMap<(u32, u32), f32> = HashMap::new();
        let clustered = rng.chance(1, 2);
        // distinct distances that differ by a few units in the last place only (not ties)
        let near = rng.chance(1, 3);
        for (i, a) in universe.iter().enumerate() {
            for (j, b) in universe.iter().enumerate() {
                if j < i {
                    continue;
                }
                let v = loop {
                    // two tight groups and a gap (cluster-with-cluster merges), or uniform
                    let base: f32 = if clustered && (i % 2 == j % 2) { 0.0 } else { 1.0 };
                    // enough distinct values for all pairs of the universe (the loop below needs a fresh one each time)
                    let k = if near { rng.below(256.max(4 * (nterms * nterms) as u64)) } else { rng.below(1 << 22) };
                    let c = base + (k as f32) / (1u32 << 23) as f32;
                    if used.insert(f32_bits(c)) {
                        break c;
                    }
                };
                table.insert((*a, *b), v);
                table.insert((*b, *a), v);
            }
        }
        // distinct, non-empty input sets
        let mut sets: Vec<Vec<u32>> = vec![];
        let mut seen: BTreeSet<Vec<u32>> = BTreeSet::new();
        let singletons = rng.chance(1, 3);
        while sets.len() < nsets {
            let mut s: BTreeSet<u32> = BTreeSet::new();
            if singletons {
                s.insert(universe[sets.len() % universe.len()]);
            } else {
                for _ in 0..rng.range(1, 3) {
                    s.insert(*rng.pick(&universe));
                }
            }
            let v: Vec<u32> = s.into_iter().collect();
            if seen.insert(v.clone()) {
                sets.push(v);
            }
        }
        let method = rng.below(4) as u8;
        let mode = rng.below(4) as u8;
        // one infinite distance (a user distance such as 1/similarity on unrelated sets).  With one-term input
        // sets and the min / max reading of the table exactly one pair of live clusters is at distance +inf at
        // any time (the one holding the two terms), so no ties arise; it is merged last.
        let mut infinite = false;
        if singletons && mode <= 1 && sets.len() >= 2 && rng.chance(1, 5) {
            let i = rng.below(sets.len() as u64) as usize;
            let mut j = rng.below(sets.len() as u64) as usize;
            if j == i {
                j = (i + 1) % sets.len();
            }
            let (x, y) = (sets[i][0], sets[j][0]);
            table.insert((x, y), f32::INFINITY);
            table.insert((y, x), f32::INFINITY);
            infinite = true;
        }
        let log: RefCell<Vec<Vec<(Vec<u32>, Vec<u32>)>>> = RefCell::new(vec![]);
        let cb = |combs: Combinations<HpoSet<'_>>| -> Vec<f32> {
            let mut pairs = vec![];
            let mut res = vec![];
            for (a, b) in combs {
                let (ia, ib) = (set_ids(a), set_ids(b));
                res.push(dist_fn(&table, mode, &ia, &ib));
                pairs.push((ia, ib));
            }
            log.borrow_mut().push(pairs);
            res
        };
        let mk = |s: &Vec<u32>| -> HpoSet {
            let g: HpoGroup = s.iter().map(|x| HpoTermId::from(*x)).collect();
            HpoSet::new(&ont, g)
        };
        let r = crate::catch(std::panic::AssertUnwindSafe(|| {
            let hs: Vec<HpoSet> = sets.iter().map(mk).collect();
            let l = match method {
                0 => Linkage::union(hs, cb),
                1 => Linkage::single(hs, cb),
                2 => Linkage::complete(hs, cb),
                _ => Linkage::average(hs, cb),
            };
            let cl: Vec<V> = l.cluster().map(|c| V::T(vec![nu(c.lhs()), nu(c.rhs()), n(f32_bits(c.distance())), nu(c.len())])).collect();
            let idx: Vec<V> = l.indicies().into_iter().map(nu).collect();
            // into_cluster must yield the same sequence
            let cl2: Vec<(usize, usize, u32, usize)> = l.into_cluster().map(|c| (c.lhs(), c.rhs(), f32_bits(c.distance()), c.len())).collect();
            (cl, idx, cl2)
        }));
        let obs = match r {
            // the big clustering of this run was no dendrogram: reported through the first case, whose observation
            // then matches no outcome of the model
            _ if !big_ok && out.is_empty() => V::C("Err", vec![V::C("TryFromIntError", vec![])]),
            None => V::C("Panic", vec![]),
            Some((cl, idx, cl2)) => {
                let cl2v: Vec<V> = cl2.into_iter().map(|(a, b, d, z)| V::T(vec![nu(a), nu(b), n(d), nu(z)])).collect();
                if cl2v != cl {
                    V::C("Err", vec![V::C("InvalidInput", vec![])]) // cluster() and into_cluster() disagree
                } else {
                    let calls: Vec<V> = log.borrow().iter().map(|ps| V::L(ps.iter().map(|(a, b)| V::T(vec![ln(a), ln(b)])).collect())).collect();
                    V::C("Ok", vec![V::T(vec![n(0u32), V::L(cl), V::L(idx), V::L(calls)])])
                }
            }
        };
        let mut tv: Vec<(u32, u32, f32)> = table.iter().map(|(k, v)| (k.0, k.1, *v)).collect();
        tv.sort_by_key(|x| (x.0, x.1));
        let input = V::T(vec![
            n(method),
            V::L(sets.iter().map(|s| ln(s)).collect()),
            V::L(tv.into_iter().map(|(a, b, v)| V::T(vec![n(a), n(b), n(f32_bits(v))])).collect()),
            n(mode),
        ]);
        let mut tags = vec![match method {
            0 => "union",
            1 => "single",
            2 => "complete",
            _ => "average",
        }];
        if nsets >= 5 {
            tags.push("nt");
        }
        if clustered {
            tags.push("two_groups");
        }
        if near {
            tags.push("near_ties");
        }
        if infinite {
            tags.push("infinite_distance");
        }
        out.push(Case { input, obs, tags });
    }
    out
}
