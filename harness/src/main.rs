//! Correspondence harness: runs the real `hpo` crate (path = /repo, rebuilt from
//! the working tree) on seeded inputs and prints, per case, one line
//! `<input in Gallina syntax>\t<observation in Gallina syntax>\t<tags>`.
mod rng;
mod v;
mod gen;
mod dump;
mod build;
mod bin;
mod world;
mod c01;
mod cworld;
mod cbin;
mod c11;
mod c13;
mod c14;
mod c20;
mod c12;
mod c10;
mod jax;
mod c09;
mod c06;
mod c04;
mod c17;
mod c05;
mod c18;

use rng::Rng;

pub struct Case {
    pub input: v::V,
    pub obs: v::V,
    pub tags: Vec<&'static str>,
}

pub fn catch<T, F: FnOnce() -> T + std::panic::UnwindSafe>(f: F) -> Option<T> {
    std::panic::catch_unwind(f).ok()
}

fn main() {
    let args: Vec<String> = std::env::args().collect();
    if args.len() < 4 && !(args.len() == 3 && args[1] == "load") {
        eprintln!("usage: harness <property> <seed> <count> [tier]");
        std::process::exit(2);
    }
    let prop = args[1].as_str();
    if prop == "load" {
        // child mode (cbin::load_bounded): Ontology::from_bytes on the bytes given in hex, outcome printed as one line
        std::panic::set_hook(Box::new(|_| {}));
        cbin::load_child(&args[2]);
        return;
    }
    let seed: u64 = args[2].parse().expect("seed");
    let count: usize = args[3].parse().expect("count");
    let tier = args.get(4).map(String::as_str).unwrap_or("quick");
    // panics inside the library are observations, not noise
    if std::env::var("HARNESS_SHOW_PANICS").is_err() {
        std::panic::set_hook(Box::new(|_| {}));
    }
    let mut rng = Rng::new(seed ^ (prop.bytes().fold(0u64, |a, b| a.wrapping_mul(131) + u64::from(b))));
    let cases: Vec<Case> = match prop {
        "C01" => c01::cases(&mut rng, count, tier),
        "C01r" => c01::cases_r(&mut rng, count, tier),
        "C02" | "C03" | "C19" => cworld::cases_simple(&mut rng, count, tier, prop),
        "C15" => cworld::cases_c15(&mut rng, count, tier),
        "C03f" => cworld::cases_c03f(&mut rng, count, tier),
        "C04" => c04::cases(&mut rng, count, tier),
        "C05" => c05::cases(&mut rng, count, tier),
        "C06" => c06::cases(&mut rng, count, tier),
        "C07" => cbin::cases_c07(&mut rng, count, tier),
        "C08" => cbin::cases_c08(&mut rng, count, tier),
        "C16" => cworld::cases_c16(&mut rng, count, tier),
        "C09" => c09::cases(&mut rng, count, tier),
        "C10" => c10::cases(&mut rng, count, tier),
        "C10m" => c10::cases_m(&mut rng, count, tier),
        "C11" => c11::cases(&mut rng, count, tier),
        "C11d" => c11::cases_deep(&mut rng, count, tier),
        "C12" => c12::cases(&mut rng, count, tier),
        "C12t" => c12::cases_t(&mut rng, count, tier),
        "C13" => c13::cases(&mut rng, count, tier),
        "C14" => c14::cases(&mut rng, count, tier),
        "C17" => c17::cases(&mut rng, count, tier),
        "C18" => c18::cases(&mut rng, count, tier),
        "C20" => c20::cases(&mut rng, count, tier),
        _ => {
            eprintln!("unknown property {prop}");
            std::process::exit(2);
        }
    };
    let mut out = String::new();
    for c in cases {
        use std::fmt::Write;
        writeln!(out, "{}\t{}\t{}", c.input, c.obs, c.tags.join(",")).unwrap();
    }
    print!("{out}");
}
