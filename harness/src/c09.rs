//! C09: the JAX text loaders (from_standard / from_standard_transitive) against the same facts
//! through the Builder API and the binary format.
use crate::build;
use crate::dump;
use crate::gen::{self, AnnF, Facts, Opts};
use crate::jax;
use crate::rng::Rng;
use crate::v::{b, bytes, ln, n, V};
use crate::world::{self, World};
use crate::Case;
use std::collections::BTreeSet;

fn recs_v(recs: &[AnnF]) -> V {
    V::L(recs
        .iter()
        .map(|r| {
            let ts: Vec<u32> = r.terms.iter().copied().collect::<BTreeSet<_>>().into_iter().collect();
            V::T(vec![n(r.id), bytes(r.name.as_bytes()), ln(&ts)])
        })
        .collect())
}

fn facts_v(f: &Facts) -> V {
    V::T(vec![
        V::T(vec![n(f.version.0), n(f.version.1), n(f.version.2)]),
        V::L(f.terms.iter().map(|t| V::T(vec![n(t.id), bytes(t.name.as_bytes()), b(t.obsolete), crate::v::optn(t.replacement)])).collect()),
        V::L(f.links.iter().map(|(c, p)| V::T(vec![n(*c), n(*p)])).collect()),
        recs_v(&f.genes),
        recs_v(&f.omim),
        recs_v(&f.orpha),
    ])
}

pub fn cases(rng: &mut Rng, count: usize, tier: &str) -> Vec<Case> {
    let mut out = vec![];
    while out.len() < count {
        let mut o = Opts::default();
        o.min_terms = 2;
        o.max_terms = if tier == "thorough" && rng.chance(1, 6) { 30 } else { 12 };
        o.max_records = 5;
        o.roots_eighths = 7;
        o.flags = rng.chance(1, 2);
        let mut f = gen::gen_facts(rng, o);
        // a record exists in the files only through its rows
        f.genes.retain(|r| !r.terms.is_empty());
        f.omim.retain(|r| !r.terms.is_empty());
        f.orpha.retain(|r| !r.terms.is_empty());
        let mut tags: Vec<&'static str> = vec![];
        // an ORPHA disease with the numeric id, name and terms of an OMIM disease (and vice versa)
        if rng.chance(1, 3) && !f.omim.is_empty() {
            let src = rng.pick(&f.omim).clone();
            if !f.orpha.iter().any(|r| r.id == src.id) {
                f.orpha.push(src);
                tags.push("twin_disease");
            }
        }
        let mut worlds = vec![
            World::Jax { transitive: false, obo: jax::render_obo(rng, &f), genes: jax::render_genes_to_phenotype(rng, &f), hpoa: jax::render_hpoa(rng, &f) },
            World::Jax { transitive: true, obo: jax::render_obo(rng, &f), genes: jax::render_phenotype_to_genes(rng, &f), hpoa: jax::render_hpoa(rng, &f) },
        ];
        if !o.flags {
            worlds.push(World::Builder(build::script_from_facts(rng, &f, 1)));
            tags.push("vs_builder");
        }
        worlds.push(World::Bytes(crate::bin::encode(&f, 3, rng)));
        if f.has(1) && f.has(118) {
            if f.terms.len() >= 4 {
                tags.push("nt");
            }
        } else {
            tags.push("missing_root");
        }
        if o.flags {
            tags.push("flags");
        }
        if f.terms.iter().any(|t| t.name.contains(": ")) {
            tags.push("colon_in_name");
        }
        let obs: Vec<V> = worlds
            .iter()
            .map(|w| match w.build() {
                None => V::C("Panic", vec![]),
                Some(world::Built { result: Ok(ont), .. }) => dump::dump_res(&ont),
                Some(world::Built { result: Err(e), .. }) => dump::err_v(&e),
            })
            .collect();
        let input = V::T(vec![V::L(worlds.iter().map(|w| w.to_v()).collect()), dump::ln_table(f.n_records()), facts_v(&f)]);
        out.push(Case { input, obs: V::L(obs), tags });
    }
    out
}
