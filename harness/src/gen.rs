//! Shared generator of ontology fact sets (DESIGN.md §2.7).
use crate::rng::Rng;
use std::collections::{BTreeMap, BTreeSet};

#[derive(Clone, Debug)]
pub struct TermF {
    pub id: u32,
    pub name: String,
    pub obsolete: bool,
    pub replacement: Option<u32>,
}

#[derive(Clone, Debug)]
pub struct AnnF {
    pub id: u32,
    pub name: String,
    pub terms: Vec<u32>, // direct terms, in the order the facts are supplied (may repeat)
}

#[derive(Clone, Debug, Default)]
pub struct Facts {
    pub terms: Vec<TermF>,
    /// (child, parent)
    pub links: Vec<(u32, u32)>,
    pub genes: Vec<AnnF>,
    pub omim: Vec<AnnF>,
    pub orpha: Vec<AnnF>,
    pub version: (u16, u8, u8),
}

#[derive(Clone, Copy)]
pub struct Opts {
    pub min_terms: usize,
    pub max_terms: usize,
    /// probability (in 1/8) that the standard roots HP:0000001 / HP:0000118 exist
    pub roots_eighths: u64,
    /// obsolete flags / replacements (only reachable through binary / obo construction)
    pub flags: bool,
    /// names of 250-260 bytes with multi-byte characters around byte 255
    pub long_names: bool,
    pub max_records: usize,
    /// ids restricted to < 65536 (dense), otherwise a mixture incl. sparse ids up to 9_999_999
    pub small_ids: bool,
    /// many multi-parent terms and redundant shortcut edges
    pub dense: bool,
    /// one long is_a chain (with a few side branches): deep recursion in the ancestor cache / propagation
    pub deep: bool,
}

impl Default for Opts {
    fn default() -> Self {
        Opts { min_terms: 1, max_terms: 14, roots_eighths: 4, flags: false, long_names: false, max_records: 5, small_ids: false, dense: false, deep: false }
    }
}

const WORDS: &[&str] = &[
    "Abnormality", "of", "the", "liver", "Kidney", "Short", "stature", "Größe", "naïve", "心臓", "😀", "A: b", "x", "Seizure", "α-thal", "Mode", "onset", "! late", "x ! y",
];

pub fn gen_name(rng: &mut Rng, long: bool) -> String {
    if long && rng.chance(1, 3) {
        // straddle byte 255 with a multi-byte character
        let target = rng.range(250, 254) as usize;
        let mut s = "a".repeat(target);
        let filler = ["€", "ß", "😀", "z"];
        while s.len() < 262 {
            s.push_str(*rng.pick(&filler[..]));
        }
        return s;
    }
    match rng.below(12) {
        0 => String::new(),
        _ => {
            let k = rng.range(1, 3);
            let mut parts = vec![];
            for _ in 0..k {
                parts.push(*rng.pick(WORDS));
            }
            parts.join(" ")
        }
    }
}

impl Facts {
    pub fn ids(&self) -> Vec<u32> {
        self.terms.iter().map(|t| t.id).collect()
    }
    pub fn has(&self, id: u32) -> bool {
        self.terms.iter().any(|t| t.id == id)
    }
    pub fn parents_of(&self, id: u32) -> BTreeSet<u32> {
        self.links.iter().filter(|(c, _)| *c == id).map(|(_, p)| *p).collect()
    }
    /// reflexive-transitive closure upwards, computed independently of the library
    pub fn ancestors(&self, id: u32) -> BTreeSet<u32> {
        let mut seen = BTreeSet::new();
        let mut stack = vec![id];
        while let Some(x) = stack.pop() {
            for p in self.parents_of(x) {
                if seen.insert(p) {
                    stack.push(p);
                }
            }
        }
        seen
    }
    pub fn depth(&self) -> usize {
        let mut memo: BTreeMap<u32, usize> = BTreeMap::new();
        fn d(f: &Facts, id: u32, memo: &mut BTreeMap<u32, usize>) -> usize {
            if let Some(x) = memo.get(&id) {
                return *x;
            }
            let r = f.parents_of(id).iter().map(|p| 1 + d(f, *p, memo)).max().unwrap_or(0);
            memo.insert(id, r);
            r
        }
        self.terms.iter().map(|t| d(self, t.id, &mut memo)).max().unwrap_or(0)
    }
    pub fn has_diamond(&self) -> bool {
        self.terms.iter().any(|t| self.parents_of(t.id).len() >= 2)
    }
    pub fn n_records(&self) -> usize {
        self.genes.len().max(self.omim.len()).max(self.orpha.len())
    }
}

pub fn gen_ids(rng: &mut Rng, n: usize, small: bool, reserved: &[u32]) -> Vec<u32> {
    let mut used: BTreeSet<u32> = reserved.iter().copied().collect();
    let style = if small { rng.below(2) } else { rng.below(4) };
    let mut out = vec![];
    while out.len() < n {
        let cand = match style {
            0 => rng.range(1, (n as u64 + 3) * 2) as u32,
            1 => rng.range(1, 400.max(4 * n as u64)) as u32, // (a range that always holds n distinct ids)
            2 => rng.range(1, 9_999_999) as u32,
            _ => {
                if rng.chance(1, 6) {
                    *rng.pick(&[0u32, 2, 117, 119, 9_999_999, 9_999_998, 65_535, 65_536])
                } else {
                    rng.range(1, 9_999_999) as u32
                }
            }
        };
        if used.insert(cand) {
            out.push(cand);
        }
    }
    out
}

pub fn gen_facts(rng: &mut Rng, o: Opts) -> Facts {
    let n = rng.range(o.min_terms as u64, o.max_terms as u64) as usize;
    let with_roots = n >= 2 && rng.below(8) < o.roots_eighths;
    let mut f = Facts::default();
    // node i may only have parents among nodes < i (hidden topological order)
    let n_mod = if with_roots { (rng.below(4) as usize).min(n.saturating_sub(2)) } else { 0 };
    let ids = if with_roots {
        let mut v = vec![1u32, 118];
        v.extend(gen_ids(rng, n - 2, o.small_ids, &[1, 118]));
        v
    } else {
        let mut v = gen_ids(rng, n, o.small_ids, &[]);
        // occasionally exactly one of the roots exists
        if n >= 1 && rng.chance(1, 6) && !v.contains(&1) {
            v[0] = 1;
        } else if n >= 1 && rng.chance(1, 8) && !v.contains(&118) {
            v[0] = 118;
        }
        v
    };
    for id in &ids {
        f.terms.push(TermF { id: *id, name: gen_name(rng, o.long_names), obsolete: false, replacement: None });
    }
    let mut parents: Vec<BTreeSet<usize>> = vec![BTreeSet::new(); n];
    // deep ontologies: half of them one pure chain (every shortest distance is the full depth),
    // the other half a chain with side branches and shortcut edges
    let deep_pure = o.deep && rng.chance(1, 2);
    for i in 1..n {
        if with_roots && i == 1 {
            parents[i].insert(0);
            continue;
        }
        if with_roots && i >= 2 && i < 2 + n_mod {
            parents[i].insert(0); // modifier roots: children of HP:1
            continue;
        }
        if !o.deep && rng.chance(1, 10) {
            continue; // disconnected term (another root)
        }
        let lo = if with_roots { 1 } else { 0 };
        let pick = |rng: &mut Rng| -> usize {
            if o.deep && i > lo && (deep_pure || rng.chance(15, 16)) {
                i - 1
            } else if rng.chance(1, 2) && i > lo + 3 {
                rng.range((i - 3) as u64, (i - 1) as u64) as usize // recent node: builds depth
            } else {
                rng.range(lo as u64, (i - 1) as u64) as usize
            }
        };
        let p = pick(rng);
        parents[i].insert(p);
        if deep_pure {
            continue;
        }
        if rng.chance(if o.dense { 5 } else { 2 }, 8) {
            let p2 = pick(rng);
            parents[i].insert(p2);
            if rng.chance(1, 3) {
                let p3 = pick(rng);
                parents[i].insert(p3);
            }
        }
        if rng.chance(if o.dense { 4 } else { 2 }, 10) {
            // redundant shortcut: an ancestor of an existing parent becomes a direct parent too
            let mut anc: BTreeSet<usize> = BTreeSet::new();
            let mut stack: Vec<usize> = parents[i].iter().copied().collect();
            while let Some(x) = stack.pop() {
                for q in &parents[x] {
                    if anc.insert(*q) {
                        stack.push(*q);
                    }
                }
            }
            let anc: Vec<usize> = anc.into_iter().collect();
            if !anc.is_empty() {
                parents[i].insert(*rng.pick(&anc));
            }
        }
    }
    for i in 0..n {
        for p in &parents[i] {
            f.links.push((ids[i], ids[*p]));
        }
    }
    if o.flags {
        for i in 0..n {
            if with_roots && i < 2 + n_mod {
                continue;
            }
            if rng.chance(1, 6) {
                f.terms[i].obsolete = true;
            }
            if rng.chance(1, 6) {
                // replacement: existing term / absent id / (never 0: reserved as "none" by the format)
                f.terms[i].replacement = Some(if rng.chance(3, 4) { (*rng.pick(&ids)).max(1) } else { rng.range(1, 9_999_999) as u32 });
            }
        }
        // a chain of replacements a -> b -> c (a replacement that is itself replaced), ids ascending or not
        let lo = if with_roots { 2 + n_mod } else { 0 };
        if n >= lo + 4 && rng.chance(1, 2) {
            // HP:0000000 cannot be a replacement: the binary format reserves 0 for "no replacement"
            let mut cand: Vec<usize> = (lo..n).filter(|i| ids[*i] != 0).collect();
            rng.shuffle(&mut cand);
            let mut three = vec![cand[0], cand[1], cand[2]];
            if rng.chance(2, 3) {
                three.sort_by_key(|i| ids[*i]);
            }
            f.terms[three[0]].replacement = Some(ids[three[1]]);
            f.terms[three[1]].replacement = Some(ids[three[2]]);
            f.terms[three[0]].obsolete = true;
        }
    }
    // annotations: overlapping numeric ids across kinds, different totals
    let gen_kind = |rng: &mut Rng, maxr: usize| -> Vec<AnnF> {
        let k = match rng.below(5) {
            0 => 0,
            _ => rng.range(1, maxr.max(1) as u64) as usize,
        };
        let rec_ids = gen_ids(rng, k, true, &[]);
        rec_ids
            .into_iter()
            .map(|id| {
                let nt = match rng.below(6) {
                    0 => 0,
                    1 | 2 => 1,
                    3 | 4 => 2,
                    _ => rng.range(3, 5) as usize,
                };
                let mut terms = vec![];
                for _ in 0..nt {
                    let t = *rng.pick(&ids);
                    terms.push(t);
                    if rng.chance(1, 4) {
                        terms.push(t); // repeated fact
                    }
                }
                AnnF { id, name: gen_name(rng, o.long_names), terms }
            })
            .collect()
    };
    f.genes = gen_kind(rng, o.max_records);
    f.omim = gen_kind(rng, o.max_records + 1);
    f.orpha = gen_kind(rng, o.max_records.saturating_sub(1));
    // facts on inner nodes whose ancestors are already linked via another child, and on ancestors after descendants
    let all_links = f.links.clone();
    for recs in [&mut f.genes, &mut f.omim, &mut f.orpha] {
        for r in recs.iter_mut() {
            if !r.terms.is_empty() && rng.chance(1, 3) {
                let t = r.terms[0];
                if let Some((_, p)) = all_links.iter().find(|(c, _)| *c == t) {
                    let at = rng.below(r.terms.len() as u64 + 1) as usize;
                    r.terms.insert(at, *p);
                }
            }
        }
    }
    f.version = if rng.chance(1, 5) { (0, 0, 0) } else { (rng.range(1990, 2030) as u16, rng.range(1, 12) as u8, rng.range(1, 31) as u8) };
    f
}
