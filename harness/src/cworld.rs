//! C02, C03, C15, C16, C19: properties observed on whole ontologies built from generated worlds.
use crate::build::{self, Script};
use crate::c01::tags_for;
use crate::dump::{self, gids, sorted};
use crate::gen::{self, Facts, Opts};
use crate::rng::Rng;
use crate::v::{b, bytes, ln, n, nu, V};
use crate::world::{self, World};
use crate::Case;
use hpo::annotations::{AnnotationId, Disease, GeneId, OmimDiseaseId, OrphaDiseaseId};
use hpo::{HpoTerm, Ontology};
use std::collections::BTreeSet;

fn terms_sorted(o: &Ontology) -> Vec<HpoTerm<'_>> {
    let mut terms: Vec<HpoTerm> = o.hpos().collect();
    terms.sort_by_key(|t| t.id().as_u32());
    terms
}

fn annot_lists(o: &Ontology) -> (Vec<V>, Vec<V>, Vec<V>) {
    let mut genes: Vec<_> = o.genes().collect();
    genes.sort_by_key(|g| g.id().as_u32());
    let mut omim: Vec<_> = o.omim_diseases().collect();
    omim.sort_by_key(|g| g.id().as_u32());
    let mut orpha: Vec<_> = o.orpha_diseases().collect();
    orpha.sort_by_key(|g| g.id().as_u32());
    (
        genes.iter().map(|g| { let _ = g.to_hpo_set(o).iter().count(); V::T(vec![n(g.id().as_u32()), bytes(g.name().as_bytes()), ln(&gids(g.hpo_terms()))]) }).collect(),
        omim.iter().map(|g| { let _ = g.to_hpo_set(o).iter().count(); V::T(vec![n(g.id().as_u32()), bytes(g.name().as_bytes()), ln(&gids(g.hpo_terms()))]) }).collect(),
        orpha.iter().map(|g| { let _ = g.to_hpo_set(o).iter().count(); V::T(vec![n(g.id().as_u32()), bytes(g.name().as_bytes()), ln(&gids(g.hpo_terms()))]) }).collect(),
    )
}

fn annot_ids(t: &HpoTerm) -> (Vec<u32>, Vec<u32>, Vec<u32>) {
    // the resolving iterators panic on a dangling id
    let _ = t.genes().count() + t.omim_diseases().count() + t.orpha_diseases().count();
    (
        sorted(t.gene_ids().iter().map(|g| g.as_u32()).collect()),
        sorted(t.omim_disease_ids().iter().map(|g| g.as_u32()).collect()),
        sorted(t.orpha_disease_ids().iter().map(|g| g.as_u32()).collect()),
    )
}

pub fn obs_c02(o: &Ontology) -> V {
    let ts: Vec<V> = terms_sorted(o)
        .iter()
        .map(|t| {
            let (g, m, r) = annot_ids(t);
            V::T(vec![n(t.id().as_u32()), ln(&gids(t.all_parent_ids())), ln(&g), ln(&m), ln(&r)])
        })
        .collect();
    let (gs, ms, rs) = annot_lists(o);
    let mut probe: BTreeSet<u32> = [0u32, u32::MAX].into_iter().collect();
    probe.extend(o.genes().map(|g| g.id().as_u32()));
    probe.extend(o.omim_diseases().map(|g| g.id().as_u32()));
    probe.extend(o.orpha_diseases().map(|g| g.id().as_u32()));
    let pr: Vec<V> = probe
        .into_iter()
        .map(|id| {
            V::T(vec![
                n(id),
                b(o.gene(&GeneId::from(id)).map_or(false, |g| g.id().as_u32() == id)),
                b(o.omim_disease(&OmimDiseaseId::from(id)).map_or(false, |g| g.id().as_u32() == id)),
                b(o.orpha_disease(&OrphaDiseaseId::from(id)).map_or(false, |g| g.id().as_u32() == id)),
            ])
        })
        .collect();
    V::T(vec![V::L(ts), V::L(gs), V::L(ms), V::L(rs), V::L(pr)])
}

pub fn obs_c03(o: &Ontology) -> V {
    let ts: Vec<V> = terms_sorted(o)
        .iter()
        .map(|t| {
            let (g, m, r) = annot_ids(t);
            let ic = t.information_content();
            V::T(vec![
                n(t.id().as_u32()),
                ln(&gids(t.all_parent_ids())),
                ln(&g),
                ln(&m),
                ln(&r),
                V::T(vec![n(dump::f32_bits(ic.gene())), n(dump::f32_bits(ic.omim_disease())), n(dump::f32_bits(ic.orpha_disease()))]),
                V::T(vec![
                    n(dump::f32_bits(ic.get_kind(&hpo::term::InformationContentKind::Gene))),
                    n(dump::f32_bits(ic.get_kind(&hpo::term::InformationContentKind::Omim))),
                    n(dump::f32_bits(ic.get_kind(&hpo::term::InformationContentKind::Orpha))),
                ]),
            ])
        })
        .collect();
    V::T(vec![V::L(ts), V::T(vec![crate::v::nu(o.genes().count()), crate::v::nu(o.omim_diseases().count()), crate::v::nu(o.orpha_diseases().count())])])
}

pub fn obs_c19(o: &Ontology) -> V {
    let ts: Vec<V> = terms_sorted(o)
        .iter()
        .map(|t| {
            V::T(vec![
                n(t.id().as_u32()),
                ln(&gids(t.all_parent_ids())),
                ln(&gids(t.children_ids())),
                b(t.is_modifier()),
                V::L(t.categories().iter().map(|c| n(c.as_u32())).collect()),
            ])
        })
        .collect();
    V::T(vec![V::L(ts), ln(&gids(o.categories())), ln(&gids(o.modifier()))])
}

fn annot_tags(f: &Facts, tags: &mut Vec<&'static str>) {
    let total: usize = [&f.genes, &f.omim, &f.orpha].iter().map(|r| r.iter().map(|x| x.terms.len()).sum::<usize>()).sum();
    if total >= 3 && f.depth() >= 2 {
        tags.push("nt");
    }
    if [&f.genes, &f.omim, &f.orpha].iter().any(|r| r.is_empty()) {
        tags.push("emptykind");
    }
    if [&f.genes, &f.omim, &f.orpha].iter().any(|r| r.iter().any(|x| x.terms.is_empty())) {
        tags.push("rec_without_terms");
    }
}

/// C03 at the u16 limit of InformationContent::calculate: a Builder script plus a block of add_* calls
/// that brings one kind to exactly `target` records (65 535: the last total that is accepted;
/// 65 536 and more: calculate_information_content returns Err as soon as a term carries the kind)
fn case_bulk(rng: &mut Rng, target: usize) -> Case {
    let mut o = Opts::default();
    o.max_terms = 8;
    o.min_terms = 2;
    o.max_records = 5;
    let (f, s, tag) = loop {
        let f = gen::gen_facts(rng, o);
        let kb = rng.below(2) as u8;
        let s = build::script_from_facts(rng, &f, kb);
        // the kind must be carried by some term (otherwise every value is 0 and nothing is converted)
        let linked: Vec<u8> = [&f.genes, &f.omim, &f.orpha]
            .iter()
            .enumerate()
            .filter(|(_, r)| r.iter().any(|x| !x.terms.is_empty()))
            .map(|(i, _)| i as u8)
            .collect();
        // the block's ids must be fresh (the model then appends it at once)
        if s.annots.iter().all(|a| a.1 < 2_000_000) && !linked.is_empty() {
            let tag = *rng.pick(&linked);
            break (f, s, tag);
        }
    };
    let own = match tag {
        0 => f.genes.len(),
        1 => f.omim.len(),
        _ => f.orpha.len(),
    };
    let cnt = target - own;
    let w = World::Bulk(s, tag, 2_000_000, cnt as u32);
    let bl = w.build();
    let obs = world::on_onto(&bl, obs_c03);
    let mut tags = vec!["bulk"];
    if target > 65535 {
        tags.push("over_u16");
    } else {
        tags.push("nt");
    }
    let input = V::T(vec![w.to_v(), dump::ln_table_totals(f.n_records(), &[target])]);
    Case { input, obs, tags }
}

pub fn cases_simple(rng: &mut Rng, count: usize, tier: &str, which: &str) -> Vec<Case> {
    let mut out = vec![];
    if which == "C03" {
        out.push(case_bulk(rng, 65535));
        out.push(case_bulk(rng, 65536));
        if tier == "thorough" {
            out.push(case_bulk(rng, 65535));
            let over = 65537 + rng.below(3000) as usize;
            out.push(case_bulk(rng, over));
        }
    }
    while out.len() < count {
        let mut o = Opts::default();
        o.max_terms = if tier == "thorough" && rng.chance(1, 10) { 40 } else { 14 };
        match which {
            "C02" => {
                o.max_records = 5;
                o.min_terms = 2;
            }
            "C03" => {
                o.max_records = 7;
                o.min_terms = 2;
            }
            _ => {
                o.roots_eighths = 7;
                o.min_terms = 1;
                o.max_records = 2;
            }
        }
        let mut tags = vec![];
        let (w, f) = if which == "C19" && rng.chance(1, 2) {
            let f = gen::gen_facts(rng, o);
            tags.push("builder");
            (World::Builder(build::script_from_facts(rng, &f, 1)), f)
        } else if which == "C19" && rng.chance(1, 3) {
            // user-chosen category / modifier groups (categories_mut / modifier_mut)
            world::gen_world_custom(rng, o, &mut tags, 1)
        } else {
            world::gen_world_sub(rng, o, &mut tags)
        };
        // C02: a client that ignores the error of an annotate_* call on an unknown term and goes on
        let w = match (which, w) {
            ("C02", World::Builder(mut s)) if rng.chance(1, 3) => {
                for _ in 0..rng.range(1, 3) {
                    let tag = 3 + rng.below(3) as u8;
                    let id = if rng.chance(1, 2) && !s.annots.is_empty() { rng.pick(&s.annots).1 } else { rng.range(1, 40) as u32 };
                    let absent = loop {
                        let c = rng.range(2, 9_999_999) as u32;
                        if !f.has(c) {
                            break c;
                        }
                    };
                    let at = rng.below(s.annots.len() as u64 + 1) as usize;
                    s.annots.insert(at, (tag, id, absent, gen::gen_name(rng, false)));
                }
                tags.push("failing_annotate");
                World::Builder(s)
            }
            // C02: a record first seen under an empty name (phenotype_to_genes rows without a symbol), later
            // under its real one: the first name stays, and so do the terms recorded so far
            ("C02", World::Builder(mut s)) if rng.chance(1, 3) => {
                let mut seen: BTreeSet<(u8, u32)> = BTreeSet::new();
                let mut count: std::collections::BTreeMap<(u8, u32), usize> = std::collections::BTreeMap::new();
                for a in &s.annots {
                    *count.entry((a.0 % 3, a.1)).or_insert(0) += 1;
                }
                let mut changed = false;
                for a in s.annots.iter_mut() {
                    let key = (a.0 % 3, a.1);
                    if seen.insert(key) && count[&key] >= 2 && rng.chance(1, 2) {
                        a.3 = String::new();
                        changed = true;
                    }
                }
                if changed {
                    tags.push("empty_first_name");
                }
                World::Builder(s)
            }
            (_, w) => w,
        };
        let bl = w.build();
        let obs = match which {
            "C02" => {
                annot_tags(&f, &mut tags);
                world::on_onto(&bl, obs_c02)
            }
            "C03" => {
                annot_tags(&f, &mut tags);
                world::on_onto(&bl, obs_c03)
            }
            _ => {
                if f.has(1) && f.has(118) {
                    if f.terms.len() >= 5 {
                        tags.push("nt");
                    }
                } else {
                    tags.push("missing_root");
                }
                world::on_onto(&bl, obs_c19)
            }
        };
        tags.extend(tags_for(&f).into_iter().filter(|t| *t != "nt"));
        out.push(Case { input: world::winput(&w, f.n_records()), obs, tags });
    }
    out
}

// ---------------------------------------------------------------------------------------------
// C15: histories with failing calls
// ---------------------------------------------------------------------------------------------

fn corrupt(rng: &mut Rng, s: &mut Script, f: &Facts) {
    let absent = |rng: &mut Rng, f: &Facts| -> u32 {
        loop {
            let c = match rng.below(4) {
                0 => rng.range(1, 40) as u32,
                1 => 0,
                2 => *rng.pick(&[9_999_999u32, 10_000_000, 10_000_001, u32::MAX, 65_536]),
                _ => rng.range(1, 9_999_999) as u32,
            };
            if !f.has(c) {
                return c;
            }
        }
    };
    let present = |rng: &mut Rng, f: &Facts| -> u32 { rng.pick(&f.terms).id };
    // failing add_parent calls (absent parent, absent child, both)
    for _ in 0..rng.below(4) {
        let (p, c) = match rng.below(3) {
            0 => (absent(rng, f), present(rng, f)),
            1 => (present(rng, f), absent(rng, f)),
            _ => (absent(rng, f), absent(rng, f)),
        };
        let at = rng.below(s.parents.len() as u64 + 1) as usize;
        s.parents.insert(at, (p, c));
    }
    // failing annotate calls: new record id, existing record id
    for _ in 0..rng.below(5) {
        let tag = 3 + rng.below(3) as u8;
        let id = if rng.chance(1, 2) && !s.annots.is_empty() { rng.pick(&s.annots).1 } else { rng.range(1, 30) as u32 };
        let at = rng.below(s.annots.len() as u64 + 1) as usize;
        s.annots.insert(at, (tag, id, absent(rng, f), gen::gen_name(rng, false)));
    }
}

fn filter_script(s: &Script, codes: &[V]) -> Script {
    let ok = |v: &V| *v == n(0u32);
    let np = s.parents.len();
    let parents = s.parents.iter().zip(codes.iter()).filter(|(_, c)| ok(c)).map(|(p, _)| *p).collect();
    let annots = s.annots.iter().zip(codes[np.min(codes.len())..].iter()).filter(|(_, c)| ok(c)).map(|(a, _)| a.clone()).collect();
    Script { version: s.version, terms: s.terms.clone(), parents, annots, kindb: s.kindb }
}

pub fn cases_c15(rng: &mut Rng, count: usize, tier: &str) -> Vec<Case> {
    let mut out = vec![];
    while out.len() < count {
        let mut o = Opts::default();
        o.max_terms = if tier == "thorough" { 20 } else { 10 };
        o.min_terms = 1;
        o.max_records = 4;
        if rng.chance(1, 8) {
            // a binary file; three times in four one of its records names a term the file does not contain.
            // Whatever from_bytes returns as an ontology must be referentially closed and walkable.
            let mut ob = o;
            ob.flags = true;
            ob.roots_eighths = 8;
            ob.min_terms = ob.min_terms.max(2);
            let f = gen::gen_facts(rng, ob);
            let mut fr = crate::bin::restrict(&f, 3);
            let mut tags = vec!["binary_file"];
            if rng.chance(3, 4) {
                let absent = loop {
                    let c = rng.range(2, 9_999_999) as u32;
                    if !fr.has(c) {
                        break c;
                    }
                };
                let recs = match rng.below(3) {
                    0 => &mut fr.genes,
                    1 => &mut fr.omim,
                    _ => &mut fr.orpha,
                };
                if !recs.is_empty() {
                    let i = rng.below(recs.len() as u64) as usize;
                    recs[i].terms.push(absent);
                    recs[i].terms.sort();
                    tags.push("record_names_absent_term");
                    tags.push("nt");
                }
            }
            let w = World::Bytes(crate::bin::encode(&fr, 3, rng));
            let bl = w.build();
            let full = world::wobs(&bl);
            out.push(Case { input: world::winput(&w, fr.n_records() + 3), obs: V::T(vec![full.clone(), full]), tags });
            continue;
        }
        let f = gen::gen_facts(rng, o);
        let kindb = if f.has(1) && f.has(118) { rng.below(2) as u8 } else { u8::from(rng.chance(1, 8)) };
        let mut s = build::script_from_facts(rng, &f, kindb);
        let mut tags = vec![];
        if rng.chance(5, 6) {
            corrupt(rng, &mut s, &f);
        }
        if rng.chance(1, 25) {
            // a term outside the id space: new_term panics
            let at = rng.below(s.terms.len() as u64 + 1) as usize;
            s.terms.insert(at, (*rng.pick(&[10_000_000u32, 10_000_001, u32::MAX]), "out".to_string()));
            tags.push("out_of_range");
        }
        let w = World::Builder(s.clone());
        let bl = w.build();
        let full = world::wobs(&bl);
        let filt = match &bl {
            Some(built) => {
                let nfail = built.codes.iter().filter(|c| **c != n(0u32)).count();
                if nfail >= 2 {
                    tags.push("nt");
                }
                if nfail >= 1 {
                    tags.push("failing_calls");
                }
                let fs = filter_script(&s, &built.codes);
                world::wobs(&World::Builder(fs).build())
            }
            None => full.clone(),
        };
        out.push(Case { input: world::winput(&w, f.n_records() + 3), obs: V::T(vec![full, filt]), tags });
    }
    out
}

// ---------------------------------------------------------------------------------------------
// C16: permutations of the same facts
// ---------------------------------------------------------------------------------------------

pub fn cases_c16(rng: &mut Rng, count: usize, tier: &str) -> Vec<Case> {
    let mut out = vec![];
    while out.len() < count {
        let mut o = Opts::default();
        o.max_terms = if tier == "thorough" && rng.chance(1, 8) { 30 } else { 10 };
        o.min_terms = 2;
        o.max_records = 4;
        let deep = rng.chance(1, 10);
        if deep {
            // one long chain: the three orders include leaf-first and root-first supplies
            o.deep = true;
            o.min_terms = 36;
            o.max_terms = if tier == "thorough" { 90 } else { 50 };
            o.max_records = 2;
        }
        if !deep && rng.chance(1, 4) {
            // the same facts rendered three times as JAX text files: stanza order, line order inside a
            // stanza and row order differ, the loader is the same
            o.flags = true;
            o.long_names = false;
            o.roots_eighths = 8;
            let mut f = gen::gen_facts(rng, o);
            f.genes.retain(|r| !r.terms.is_empty());
            f.omim.retain(|r| !r.terms.is_empty());
            f.orpha.retain(|r| !r.terms.is_empty());
            let transitive = rng.chance(1, 2);
            let mut worlds = vec![];
            let mut obs = vec![];
            for _ in 0..3 {
                let genes = if transitive { crate::jax::render_phenotype_to_genes(rng, &f) } else { crate::jax::render_genes_to_phenotype(rng, &f) };
                let w = World::Jax { transitive, obo: crate::jax::render_obo(rng, &f), genes, hpoa: crate::jax::render_hpoa(rng, &f) };
                let bl = w.build();
                obs.push(match &bl {
                    None => V::C("Panic", vec![]),
                    Some(world::Built { result: Ok(o), .. }) => dump::dump_res(o),
                    Some(world::Built { result: Err(e), .. }) => dump::err_v(e),
                });
                worlds.push(w.to_v());
            }
            let mut tags = tags_for(&f);
            tags.push("jax");
            out.push(Case { input: V::T(vec![V::L(worlds), dump::ln_table(f.n_records())]), obs: V::L(obs), tags });
            continue;
        }
        let mut f = gen::gen_facts(rng, o);
        // one name per id: a record keeps the name it was first created with, so every fact of a
        // record carries the same name (gen_facts guarantees this)
        let kindb = if f.has(1) && f.has(118) { rng.below(2) as u8 } else { 0 };
        let mut worlds = vec![];
        let mut obs = vec![];
        for round in 0..3 {
            rng.shuffle(&mut f.terms);
            rng.shuffle(&mut f.links);
            if deep && round < 2 {
                // descendants first / ancestors first (ids are uncorrelated with depth)
                let depth_of: std::collections::BTreeMap<u32, usize> = f.terms.iter().map(|t| (t.id, f.ancestors(t.id).len())).collect();
                f.terms.sort_by_key(|t| depth_of[&t.id]);
                if round == 0 {
                    f.terms.reverse();
                }
            }
            let s = build::script_from_facts_opt(rng, &f, kindb, !(deep && round < 2));
            // add_* for every record so that the set of records does not depend on the random choice
            let w = World::Builder(ensure_adds(s, &f));
            let bl = w.build();
            obs.push(match &bl {
                None => V::C("Panic", vec![]),
                Some(world::Built { result: Ok(o), .. }) => dump::dump_res(o),
                Some(world::Built { result: Err(e), .. }) => dump::err_v(e),
            });
            worlds.push(w.to_v());
        }
        let mut tags = tags_for(&f);
        tags.push("builder");
        if deep {
            tags.push("deep_chain");
        }
        out.push(Case { input: V::T(vec![V::L(worlds), dump::ln_table(f.n_records())]), obs: V::L(obs), tags });
    }
    out
}

fn ensure_adds(mut s: Script, f: &Facts) -> Script {
    for (k, recs) in [&f.genes, &f.omim, &f.orpha].iter().enumerate() {
        for r in recs.iter() {
            if !s.annots.iter().any(|(t, id, _, _)| *t == k as u8 && *id == r.id) {
                s.annots.push((k as u8, r.id, 0, r.name.clone()));
            }
        }
    }
    s
}

/// C03f: InformationContent::set_gene / set_omim_disease / set_orpha_disease on arbitrary (total, current) pairs
pub fn cases_c03f(rng: &mut Rng, count: usize, tier: &str) -> Vec<Case> {
    use hpo::term::InformationContent;
    let mut out = vec![];
    let per_case = if tier == "thorough" { 400 } else { 200 };
    while out.len() < count {
        let mut pairs: Vec<(usize, usize)> = vec![
            (0, 0), (0, 5), (5, 0), (1, 1), (2, 1), (65535, 65535), (65535, 65534), (65535, 1), (65536, 1), (65536, 65536),
            (1, 65536), (65535, 65536), (70000, 3), (3, 70000), (30000, 29998), (10001, 10000), (20000, 19999),
        ];
        while pairs.len() < per_case {
            let total = match rng.below(5) {
                0 => rng.range(1, 40) as usize,
                1 => rng.range(1, 2000) as usize,
                2 => rng.range(9000, 65535) as usize,
                3 => rng.range(60000, 65540) as usize,
                _ => rng.range(1, 65535) as usize,
            };
            let current = match rng.below(6) {
                0 => total,
                1 => total.saturating_sub(rng.range(1, 4) as usize),
                2 => rng.range(0, 3) as usize,
                3 => total + rng.range(1, 3) as usize,
                _ => rng.range(0, total as u64) as usize,
            };
            pairs.push((total, current));
        }
        let mut seen = std::collections::BTreeMap::new();
        let mut near_total = 0usize;
        let obs: Vec<V> = pairs
            .iter()
            .map(|(total, current)| {
                if *total > 0 && *current > 0 && *total <= 65535 && *current <= 65535 {
                    let q = (*current as u16 as f32) / (*total as u16 as f32);
                    seen.insert(crate::dump::f32_bits(q), crate::dump::f32_bits(q.ln()));
                    if *total > 10000 && *current < *total && total - current <= 3 {
                        near_total += 1;
                    }
                }
                let enc = |r: hpo::HpoResult<()>, v: f32| match r {
                    Ok(()) => V::T(vec![n(0u32), n(crate::dump::f32_bits(v))]),
                    Err(hpo::HpoError::TryFromIntError(_)) => V::T(vec![n(1u32), n(1u32)]),
                    Err(_) => V::T(vec![n(1u32), n(99u32)]),
                };
                let mut ic = InformationContent::default();
                let g = ic.set_gene(*total, *current);
                let g = enc(g, ic.gene());
                let mut ic = InformationContent::default();
                let m = ic.set_omim_disease(*total, *current);
                let m = enc(m, ic.omim_disease());
                let mut ic = InformationContent::default();
                let r = ic.set_orpha_disease(*total, *current);
                let r = enc(r, ic.orpha_disease());
                V::T(vec![g, m, r])
            })
            .collect();
        let tbl = V::L(seen.into_iter().map(|(a, r)| V::T(vec![n(a), n(r)])).collect());
        let input = V::T(vec![V::L(pairs.iter().map(|(t, c)| V::T(vec![nu(*t), nu(*c)])).collect()), tbl]);
        let mut tags = vec!["nt"];
        if near_total > 0 {
            tags.push("count_just_below_large_total");
        }
        out.push(Case { input, obs: V::L(obs), tags });
    }
    out
}
