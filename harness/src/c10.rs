//! C10: lookups are exact for every id and every name.
//! The crate side sweeps `Ontology::hpo` over EVERY id 0..=10^7+1 (plus probes up to u32::MAX).
use crate::gen::Opts;
use crate::rng::Rng;
use crate::v::{bytes, ln, n, nu, V};
use crate::world;
use crate::Case;
use hpo::annotations::{AnnotationId, Disease};
use hpo::{HpoTermId, Ontology};

const SWEEP_END: u32 = 10_000_002;

fn obs(o: &Ontology, probes: &[u32], queries: &[String]) -> V {
    let mut found = vec![];
    // the other public way to a term, HpoTerm::try_new, must answer exactly like Ontology::hpo: a disagreement
    // is recorded as an answer that carries an id nobody asked for (which the statement rejects)
    let mut both = |id: u32, found: &mut Vec<V>| {
        let a = o.hpo(HpoTermId::from(id));
        let b = hpo::HpoTerm::try_new(o, HpoTermId::from(id)).ok();
        match (a, b) {
            (Some(t), Some(t2)) if t.id() == t2.id() && t.name() == t2.name() => {
                found.push(V::T(vec![n(id), n(t.id().as_u32()), bytes(t.name().as_bytes())]));
            }
            (None, None) => {}
            _ => found.push(V::T(vec![n(id), n(u32::MAX), bytes(b"HpoTerm::try_new and Ontology::hpo disagree")])),
        }
    };
    for id in 0..SWEEP_END {
        both(id, &mut found);
    }
    for id in probes {
        both(*id, &mut found);
    }
    let mut iter_ids: Vec<u32> = o.iter().map(|t| t.id().as_u32()).collect();
    iter_ids.sort();
    let qs: Vec<V> = queries
        .iter()
        .map(|q| {
            let g = match o.gene_by_name(q) {
                Some(g) => V::L(vec![V::T(vec![n(g.id().as_u32()), bytes(g.name().as_bytes())])]),
                None => V::L(vec![]),
            };
            let mut ms: Vec<u32> = o.omim_diseases_by_name(q).map(|d| d.id().as_u32()).collect();
            ms.sort();
            let m1 = match o.omim_disease_by_name(q) {
                Some(d) => V::L(vec![V::T(vec![n(d.id().as_u32()), bytes(d.name().as_bytes())])]),
                None => V::L(vec![]),
            };
            V::T(vec![g, ln(&ms), m1])
        })
        .collect();
    V::T(vec![V::L(found), ln(&iter_ids), nu(o.len()), V::L(qs)])
}

fn sub_str(rng: &mut Rng, s: &str) -> String {
    let cs: Vec<char> = s.chars().collect();
    if cs.is_empty() {
        return String::new();
    }
    let a = rng.below(cs.len() as u64) as usize;
    let b = rng.range(a as u64, cs.len() as u64) as usize;
    match rng.below(3) {
        0 => cs[..b].iter().collect(), // prefix
        1 => cs[a..].iter().collect(), // suffix
        _ => cs[a..b].iter().collect(),
    }
}

/// the whole sweep summarised (Run/C10.v obs_C10m)
fn obs_m(o: &Ontology, probes: &[u32]) -> V {
    let (mut found, mut wrong, mut sum, mut min, mut max) = (0u64, 0u64, 0u64, u64::MAX, 0u64);
    for id in 0..SWEEP_END {
        if let Some(t) = o.hpo(HpoTermId::from(id)) {
            found += 1;
            if t.id().as_u32() != id || t.name() != "t" {
                wrong += 1;
            }
            sum += u64::from(id);
            min = min.min(u64::from(id));
            max = max.max(u64::from(id));
        }
    }
    if found == 0 {
        min = 0;
    }
    let mut probed = vec![];
    for id in probes {
        if let Some(t) = o.hpo(HpoTermId::from(*id)) {
            probed.push(V::T(vec![n(*id), n(t.id().as_u32())]));
        }
    }
    let itn = o.iter().count();
    let its: u64 = o.iter().map(|t| u64::from(t.id().as_u32())).sum();
    let n64 = |x: u64| V::N(u128::from(x));
    V::T(vec![nu(o.len()), nu(itn), n64(its), n64(found), n64(wrong), n64(sum), n64(min), n64(max), V::L(probed)])
}

/// more terms than a 16-bit slot index can address: every one of them must still be found, under
/// its own id, and nothing else
pub fn cases_m(rng: &mut Rng, count: usize, _tier: &str) -> Vec<Case> {
    let mut out = vec![];
    while out.len() < count {
        let count = 65_536 + rng.range(1, 5_000) as u32;
        let stride = rng.range(1, 140) as u32;
        let first = rng.range(0, 3) as u32 + 1;
        let w = world::World::Many { version: (2024, rng.range(1, 12) as u8, rng.range(1, 28) as u8), first, stride, count };
        let probes: Vec<u32> = vec![10_000_002, 1 << 24, u32::MAX, first + 65_536 * stride + 10_000_000, (first + 65_535 * stride) | (1 << 31)];
        let bl = w.build();
        let pr = probes.clone();
        let obs = world::on_onto(&bl, move |ont: &Ontology| obs_m(ont, &pr));
        let input = V::T(vec![world::winput(&w, 0), ln(&probes)]);
        out.push(Case { input, obs, tags: vec!["many_terms", "nt"] });
    }
    out
}

pub fn cases(rng: &mut Rng, count: usize, _tier: &str) -> Vec<Case> {
    let mut out = vec![];
    while out.len() < count {
        let mut o = Opts::default();
        o.min_terms = 1;
        o.max_terms = 12;
        o.max_records = 6;
        let mut tags = vec![];
        let (w, f) = world::gen_world(rng, o, &mut tags);
        // the same id supplied again, under another name: the first definition stays, the term exists once
        let w = match w {
            world::World::Builder(mut s) if !s.terms.is_empty() && rng.chance(1, 3) => {
                for _ in 0..rng.range(1, 2) {
                    let (id, name) = rng.pick(&s.terms).clone();
                    let at = rng.below(s.terms.len() as u64 + 1) as usize;
                    s.terms.insert(at, (id, format!("{name} again")));
                }
                tags.push("id_added_twice");
                world::World::Builder(s)
            }
            w => w,
        };
        // a disease name with a self-overlapping pattern, and the query that occurs only inside a failed
        // partial match of itself ("abac" in "ababac", "aab" in "aaab"): a substring search has to backtrack
        let mut overlap_queries: Vec<String> = vec![];
        let w = match w {
            world::World::Builder(mut s) if rng.chance(1, 3) => {
                let omim_ids: Vec<u32> = s.annots.iter().filter(|a| a.0 == 1 || a.0 == 4).map(|a| a.1).collect();
                if !omim_ids.is_empty() {
                    let id = *rng.pick(&omim_ids);
                    let (name, q) = match rng.below(3) {
                        0 => (format!("Ataxia {}c type", "ab".repeat(rng.range(2, 4) as usize) + "a"), "abac".to_string()),
                        1 => (format!("{}b syndrome", "a".repeat(rng.range(3, 5) as usize)), "aab".to_string()),
                        _ => ("Spinocerebellar ataxia 1112".to_string(), "112".to_string()),
                    };
                    for a in s.annots.iter_mut() {
                        if (a.0 == 1 || a.0 == 4) && a.1 == id {
                            a.3 = name.clone();
                        }
                    }
                    overlap_queries.push(q);
                    tags.push("overlapping_query");
                }
                world::World::Builder(s)
            }
            w => w,
        };
        let mut probes: Vec<u32> = vec![10_000_002, 10_000_003, 1 << 24, 1 << 31, u32::MAX - 1, u32::MAX];
        for _ in 0..4 {
            probes.push(rng.range(10_000_002, u64::from(u32::MAX)) as u32);
        }
        // an id of the ontology shifted into the space above the table (index aliasing)
        for t in f.terms.iter().take(3) {
            probes.push(t.id.wrapping_add(10_000_000).max(10_000_002));
            probes.push(t.id | (1 << 31));
        }
        let mut queries: Vec<String> = vec![String::new()];
        queries.extend(overlap_queries.iter().cloned());
        for recs in [&f.genes, &f.omim] {
            for r in recs.iter() {
                match rng.below(4) {
                    0 => queries.push(r.name.clone()),
                    1 | 2 => queries.push(sub_str(rng, &r.name)),
                    _ => {
                        // the stored name in another ASCII casing: a different string
                        let flipped: String = r
                            .name
                            .chars()
                            .map(|c| if c.is_ascii_lowercase() { c.to_ascii_uppercase() } else { c.to_ascii_lowercase() })
                            .collect();
                        queries.push(flipped);
                        queries.push(r.name.to_ascii_lowercase());
                    }
                }
            }
        }
        // the id of a record, written out, is a name query like any other (it matches names containing the digits, nothing else)
        for recs in [&f.genes, &f.omim] {
            for r in recs.iter().take(3) {
                queries.push(r.id.to_string());
                if rng.chance(1, 2) {
                    queries.push(format!("OMIM:{}", r.id));
                }
            }
        }
        queries.push(crate::gen::gen_name(rng, false));
        queries.push("zzz-absent".to_string());
        queries.push("é".to_string());
        let bl = w.build();
        let obs = world::on_onto(&bl, |ont: &Ontology| obs(ont, &probes, &queries));
        if f.terms.iter().any(|t| t.id > 65_535) && f.terms.len() >= 3 {
            tags.push("nt");
        }
        if f.has(0) {
            tags.push("id0");
        }
        if f.has(9_999_999) {
            tags.push("id_max");
        }
        let input = V::T(vec![world::winput(&w, f.n_records()), ln(&probes), V::L(queries.iter().map(|q| bytes(q.as_bytes())).collect())]);
        out.push(Case { input, obs, tags });
    }
    out
}
