//! C05: set similarity = funSimAvg / funSimMax / BMA of the pairwise matrix; caching adaptor.
use hpo::annotations::AnnotationId;
use crate::dump::f32_bits;
use crate::rng::Rng;
use crate::v::{ln, n, V};
use crate::Case;
use hpo::builder::Builder;
use hpo::matrix::Matrix;
use hpo::similarity::{CachedSimilarity, GroupSimilarity, Similarity, SimilarityCombiner, StandardCombiner};
use hpo::term::HpoGroup;
use hpo::{HpoSet, HpoTerm, HpoTermId, Ontology};
use std::cell::RefCell;
use std::collections::{BTreeSet, HashMap};

fn gen_f32(rng: &mut Rng, style: u64) -> f32 {
    match style {
        // similarities in [0, 1] with ties
        0 => (rng.below(9) as f32) / 8.0,
        // signed, with ties and both zeros
        1 => match rng.below(10) {
            0 => 0.0,
            1 => -0.0,
            _ => ((rng.below(41) as f32) - 20.0) / 16.0,
        },
        // all negative (a negated distance)
        2 => -((rng.below(1000) as f32) + 1.0) / 64.0,
        // arbitrary finite bit patterns of moderate exponent
        3 => f32::from_bits(((rng.below(2) as u32) << 31) | ((rng.range(100, 150) as u32) << 23) | (rng.below(1 << 23) as u32)),
        // extremes
        _ => match rng.below(8) {
            0 => f32::MAX,
            1 => f32::MIN,
            2 => f32::MIN_POSITIVE,
            3 => f32::INFINITY,
            4 => f32::NEG_INFINITY,
            5 => f32::NAN,
            6 => 1.0e-45,
            _ => (rng.below(1 << 24) as f32) * 0.5,
        },
    }
}

fn res_bits(r: Option<f32>, canon_zero: bool) -> V {
    match r {
        None => V::C("Panic", vec![]),
        Some(x) => {
            let b = f32_bits(x);
            V::C("Ok", vec![n(if canon_zero && b == 0x8000_0000 { 0 } else { b })])
        }
    }
}

fn res_list(r: Option<Vec<f32>>) -> V {
    match r {
        None => V::C("Panic", vec![]),
        Some(v) => V::C("Ok", vec![V::L(v.into_iter().map(|x| n(f32_bits(x))).collect())]),
    }
}

fn case_matrix(rng: &mut Rng, tier: &str) -> Case {
    let maxd = if tier == "thorough" { 14 } else { 9 };
    let (r, c) = match rng.below(12) {
        0 => (0, rng.below(4) as usize),
        1 => (rng.below(4) as usize, 0),
        2 => (1, rng.range(1, maxd) as usize),
        3 => (rng.range(1, maxd) as usize, 1),
        4 => {
            let k = rng.range(1, maxd) as usize;
            (k, k)
        }
        _ => (rng.range(1, maxd) as usize, rng.range(1, maxd) as usize),
    };
    let style = rng.below(5);
    let data: Vec<f32> = (0..r * c).map(|_| gen_f32(rng, style)).collect();
    let m = Matrix::new(r, c, &data);
    let comb = StandardCombiner::FunSimAvg;
    let (rm, cm) = if data.is_empty() {
        (Some(vec![]), Some(vec![]))
    } else {
        (crate::catch(std::panic::AssertUnwindSafe(|| comb.row_maxes(&m))), crate::catch(std::panic::AssertUnwindSafe(|| comb.col_maxes(&m))))
    };
    let avg = crate::catch(std::panic::AssertUnwindSafe(|| StandardCombiner::FunSimAvg.calculate(&m)));
    let mx = crate::catch(std::panic::AssertUnwindSafe(|| StandardCombiner::FunSimMax.calculate(&m)));
    let bma = crate::catch(std::panic::AssertUnwindSafe(|| StandardCombiner::Bma.calculate(&m)));
    let mut tags = vec!["matrix"];
    if r != c && r > 1 && c > 1 {
        tags.push("nt");
    }
    if data.is_empty() {
        tags.push("empty");
    }
    tags.push(match style {
        0 => "unit_interval",
        1 => "signed",
        2 => "negative",
        3 => "bits",
        _ => "extremes",
    });
    let input = V::C("CMat", vec![crate::v::nu(r), crate::v::nu(c), V::L(data.iter().map(|x| n(f32_bits(*x))).collect())]);
    let obs = V::C("OMat", vec![res_list(rm), res_list(cm), res_bits(avg, false), res_bits(mx, true), res_bits(bma, false)]);
    Case { input, obs, tags }
}

struct TableSim<'t> {
    table: &'t HashMap<(u32, u32), f32>,
    log: &'t RefCell<Vec<(u32, u32)>>,
}

impl Similarity for TableSim<'_> {
    fn calculate(&self, a: &HpoTerm, b: &HpoTerm) -> f32 {
        let k = (a.id().as_u32(), b.id().as_u32());
        self.log.borrow_mut().push(k);
        *self.table.get(&k).unwrap_or(&0.0)
    }
}

fn flat_ontology(ids: &BTreeSet<u32>) -> Ontology {
    let mut b = Builder::new();
    for id in ids {
        b.new_term(&format!("t{id}"), *id);
    }
    let b = b.terms_complete().connect_all_terms();
    b.calculate_information_content().expect("ic").build_minimal()
}

/// the same terms plus HP:1 and HP:118, linked so that some set members are modifier roots (children of
/// HP:1 other than HP:118) or sit below one; built with the default category / modifier sets.
/// The set similarity must not care: it is defined on the sets as given.
fn modifier_ontology(ids: &BTreeSet<u32>, rng: &mut Rng) -> Ontology {
    let mut b = Builder::new();
    for id in ids {
        b.new_term(&format!("t{id}"), *id);
    }
    let mut b = b.terms_complete();
    b.add_parent(1u32, 118u32).expect("roots exist");
    let others: Vec<u32> = ids.iter().copied().filter(|x| *x != 1 && *x != 118).collect();
    for (i, c) in others.iter().enumerate() {
        let p = match rng.below(4) {
            0 => 1,
            1 => 118,
            _ => {
                if i == 0 {
                    1
                } else {
                    others[rng.below(i as u64) as usize]
                }
            }
        };
        b.add_parent(p, *c).expect("both terms exist");
    }
    let b = b.connect_all_terms();
    b.calculate_information_content().expect("ic").build_with_defaults().expect("roots exist")
}

fn three<C: SimilarityCombiner + Copy, S: Similarity>(gs: [&GroupSimilarity<S, C>; 3], a: &HpoSet, b: &HpoSet) -> V {
    V::T(vec![
        res_bits(crate::catch(std::panic::AssertUnwindSafe(|| gs[0].calculate(a, b))), false),
        res_bits(crate::catch(std::panic::AssertUnwindSafe(|| gs[1].calculate(a, b))), true),
        res_bits(crate::catch(std::panic::AssertUnwindSafe(|| gs[2].calculate(a, b))), false),
    ])
}

fn case_sets(rng: &mut Rng, tier: &str) -> Case {
    let universe: Vec<u32> = {
        let k = rng.range(2, if tier == "thorough" { 14 } else { 9 }) as usize;
        let small = rng.chance(1, 2);
        crate::gen::gen_ids(rng, k, small, &[])
    };
    let with_modifiers = rng.chance(1, 2);
    let universe: Vec<u32> = if with_modifiers {
        let mut u: BTreeSet<u32> = universe.into_iter().collect();
        u.insert(1);
        u.insert(118);
        u.into_iter().collect()
    } else {
        universe
    };
    let ids: BTreeSet<u32> = universe.iter().copied().collect();
    let ont = if with_modifiers { modifier_ontology(&ids, rng) } else { flat_ontology(&ids) };
    let symmetric = rng.chance(1, 2);
    let style = rng.below(4);
    let mut table: HashMap<(u32, u32), f32> = HashMap::new();
    for a in &universe {
        for b in &universe {
            if symmetric && table.contains_key(&(*b, *a)) {
                let v = table[&(*b, *a)];
                table.insert((*a, *b), v);
            } else {
                table.insert((*a, *b), gen_f32(rng, style));
            }
        }
    }
    let gen_set = |rng: &mut Rng| -> Vec<u32> {
        let mut s: BTreeSet<u32> = BTreeSet::new();
        match rng.below(8) {
            0 => {}
            1 => {
                s.insert(*rng.pick(&universe));
            }
            _ => {
                for id in &universe {
                    if rng.chance(1, 2) {
                        s.insert(*id);
                    }
                }
            }
        }
        s.into_iter().collect()
    };
    let mut queries: Vec<(Vec<u32>, Vec<u32>)> = vec![];
    for _ in 0..rng.range(1, 3) {
        let a = gen_set(rng);
        let b = gen_set(rng);
        queries.push((a.clone(), b.clone()));
        // the reversed query (shares every pair, mirrored, with the first) and a self comparison
        queries.push((b, a.clone()));
        if rng.chance(1, 2) {
            queries.push((a.clone(), a));
        }
    }
    let mk = |s: &Vec<u32>| -> HpoSet {
        let g: HpoGroup = s.iter().map(|x| HpoTermId::from(*x)).collect();
        HpoSet::new(&ont, g)
    };
    let log_plain = RefCell::new(vec![]);
    let log_cached = RefCell::new(vec![]);
    // the combiners through their other doors: by name (any casing) and Default — they must be the same
    // combiners as the enum variants used on the cached path below
    let by_name = |name: &str| StandardCombiner::try_from(name).expect("documented combiner name");
    let (c_avg, c_max, c_bma) = match rng.below(3) {
        0 => (StandardCombiner::default(), by_name("funSimMax"), by_name("BMA")),
        1 => (by_name("funsimavg"), by_name("FUNSIMMAX"), by_name("bma")),
        _ => (by_name("funSimAvg"), StandardCombiner::FunSimMax, by_name("Bma")),
    };
    let plain: Vec<V> = queries
        .iter()
        .map(|(a, b)| {
            let (sa, sb) = (mk(a), mk(b));
            // through HpoSet::similarity (a fresh GroupSimilarity per call)
            let r1 = res_bits(crate::catch(std::panic::AssertUnwindSafe(|| sa.similarity(&sb, TableSim { table: &table, log: &log_plain }, c_avg))), false);
            let r2 = res_bits(crate::catch(std::panic::AssertUnwindSafe(|| sa.similarity(&sb, TableSim { table: &table, log: &log_plain }, c_max))), true);
            let r3 = res_bits(crate::catch(std::panic::AssertUnwindSafe(|| sa.similarity(&sb, TableSim { table: &table, log: &log_plain }, c_bma))), false);
            V::T(vec![r1, r2, r3])
        })
        .collect();
    // ONE cache per combiner for the whole query sequence; the inner-call log is taken from the first
    let dummy = RefCell::new(vec![]);
    let g1 = GroupSimilarity::new(StandardCombiner::FunSimAvg, CachedSimilarity::new(TableSim { table: &table, log: &log_cached }));
    let g2 = GroupSimilarity::new(StandardCombiner::FunSimMax, CachedSimilarity::new(TableSim { table: &table, log: &dummy }));
    let g3 = GroupSimilarity::new(StandardCombiner::Bma, CachedSimilarity::new(TableSim { table: &table, log: &dummy }));
    // a SECOND similarity (its own table) behind its own cache, alive at the same time as the three above and
    // used alternately with them on the same queries: adaptors must not see each other's memo
    let mut table2: HashMap<(u32, u32), f32> = HashMap::new();
    for (k, v) in table.iter() {
        // the mirrored entry, shifted: differs from `table` also when that one is symmetric
        table2.insert((k.1, k.0), 0.25 + *v / 2.0);
    }
    let g4 = GroupSimilarity::new(StandardCombiner::FunSimAvg, CachedSimilarity::new(TableSim { table: &table2, log: &dummy }));
    let mut cached: Vec<V> = vec![];
    let mut other_cached: Vec<V> = vec![];
    for (a, b) in queries.iter() {
        let (sa, sb) = (mk(a), mk(b));
        cached.push(three([&g1, &g2, &g3], &sa, &sb));
        other_cached.push(res_bits(crate::catch(std::panic::AssertUnwindSafe(|| g4.calculate(&sa, &sb))), false));
    }
    let other_plain: Vec<V> = queries
        .iter()
        .map(|(a, b)| {
            let (sa, sb) = (mk(a), mk(b));
            res_bits(crate::catch(std::panic::AssertUnwindSafe(|| sa.similarity(&sb, TableSim { table: &table2, log: &dummy }, StandardCombiner::FunSimAvg))), false)
        })
        .collect();
    let calls: Vec<V> = log_cached.borrow().iter().map(|(a, b)| V::T(vec![n(*a), n(*b)])).collect();
    let mut tags = vec!["sets"];
    if with_modifiers {
        tags.push("modifier_terms");
    }
    if symmetric {
        tags.push("symmetric");
    } else {
        tags.push("asymmetric");
    }
    if queries.iter().any(|(a, b)| a.len() >= 2 && b.len() >= 2 && a.len() != b.len()) {
        tags.push("nt");
    }
    if queries.iter().any(|(a, b)| a.is_empty() || b.is_empty()) {
        tags.push("empty_set");
    }
    let mut tv: Vec<(u32, u32, f32)> = table.iter().map(|(k, v)| (k.0, k.1, *v)).collect();
    tv.sort_by_key(|x| (x.0, x.1));
    let input = V::C(
        "CSets",
        vec![
            V::L(tv.into_iter().map(|(a, b, v)| V::T(vec![n(a), n(b), n(f32_bits(v))])).collect()),
            V::L(queries.iter().map(|(a, b)| V::T(vec![ln(a), ln(b)])).collect()),
            {
                let mut tv2: Vec<(u32, u32, f32)> = table2.iter().map(|(k, v)| (k.0, k.1, *v)).collect();
                tv2.sort_by_key(|x| (x.0, x.1));
                V::L(tv2.into_iter().map(|(a, b, v)| V::T(vec![n(a), n(b), n(f32_bits(v))])).collect())
            },
        ],
    );
    let obs = V::C("OSets", vec![V::L(plain), V::L(cached), V::L(calls), V::L(other_plain), V::L(other_cached)]);
    Case { input, obs, tags }
}

pub fn cases(rng: &mut Rng, count: usize, tier: &str) -> Vec<Case> {
    let mut out = vec![];
    while out.len() < count {
        if rng.chance(3, 5) {
            out.push(case_matrix(rng, tier));
        } else {
            out.push(case_sets(rng, tier));
        }
    }
    out
}
