//! C11: distances and paths.
use crate::c01::tags_for;
use crate::dump::gids;
use crate::gen::Opts;
use crate::rng::Rng;
use crate::v::{ln, n, nu, V};
use crate::world;
use crate::Case;
use hpo::annotations::AnnotationId;
use hpo::{HpoTerm, HpoTermId, Ontology};

fn enc_o(o: Option<usize>) -> V {
    match o {
        Some(x) => V::L(vec![nu(x)]),
        None => V::L(vec![]),
    }
}
fn enc_p(o: Option<Vec<HpoTermId>>) -> V {
    match o {
        Some(p) => V::L(vec![V::L(p.iter().map(|x| n(x.as_u32())).collect())]),
        None => V::L(vec![]),
    }
}

pub fn obs_c11(o: &Ontology) -> V {
    let mut terms: Vec<HpoTerm> = o.hpos().collect();
    terms.sort_by_key(|t| t.id().as_u32());
    let ts: Vec<V> = terms
        .iter()
        .map(|t| V::T(vec![n(t.id().as_u32()), ln(&gids(t.parent_ids())), ln(&gids(t.children_ids())), ln(&gids(t.all_parent_ids()))]))
        .collect();
    let mut ps = vec![];
    for a in &terms {
        for b in &terms {
            ps.push(V::T(vec![
                n(a.id().as_u32()),
                n(b.id().as_u32()),
                enc_o(a.distance_to_ancestor(b)),
                enc_p(a.path_to_ancestor(b)),
                enc_o(a.distance_to_term(b)),
                enc_p(a.path_to_term(b)),
            ]));
        }
    }
    V::T(vec![V::L(ts), V::L(ps)])
}

fn obs_pairs(o: &Ontology, pairs: &[(u32, u32)]) -> V {
    let mut terms: Vec<HpoTerm> = o.hpos().collect();
    terms.sort_by_key(|t| t.id().as_u32());
    let ts: Vec<V> = terms
        .iter()
        .map(|t| V::T(vec![n(t.id().as_u32()), ln(&gids(t.parent_ids())), ln(&gids(t.children_ids())), ln(&gids(t.all_parent_ids()))]))
        .collect();
    let ps: Vec<V> = pairs
        .iter()
        .map(|(x, y)| {
            let a = o.hpo(HpoTermId::from(*x)).expect("term");
            let b = o.hpo(HpoTermId::from(*y)).expect("term");
            V::T(vec![n(*x), n(*y), enc_o(a.distance_to_ancestor(&b)), enc_p(a.path_to_ancestor(&b)), enc_o(a.distance_to_term(&b)), enc_p(a.path_to_term(&b))])
        })
        .collect();
    V::T(vec![V::L(ts), V::L(ps)])
}

/// deep ontologies (one chain of 70-100 terms with a few side branches): selected pairs only
pub fn cases_deep(rng: &mut Rng, count: usize, tier: &str) -> Vec<Case> {
    let mut out = vec![];
    while out.len() < count {
        let mut o = Opts::default();
        o.deep = true;
        o.min_terms = 70;
        o.max_terms = if tier == "thorough" { 130 } else { 100 };
        o.max_records = 1;
        o.roots_eighths = 8;
        let mut tags = vec!["deep_chain"];
        let (w, f) = world::gen_world(rng, o, &mut tags);
        // the deepest term, the root, terms in between
        let ids = f.ids();
        let deepest = *ids.iter().max_by_key(|x| f.ancestors(**x).len()).unwrap();
        let mut pairs: Vec<(u32, u32)> = vec![(deepest, 1), (1, deepest), (deepest, deepest)];
        let anc: Vec<u32> = f.ancestors(deepest).into_iter().collect();
        for _ in 0..4 {
            let m = *rng.pick(&anc);
            pairs.push((deepest, m));
            pairs.push((m, deepest));
        }
        for _ in 0..6 {
            pairs.push((*rng.pick(&ids), *rng.pick(&ids)));
        }
        let b = w.build();
        let pc = pairs.clone();
        let obs = world::on_onto(&b, move |ont: &Ontology| obs_pairs(ont, &pc));
        tags.push("nt");
        let input = V::T(vec![world::winput(&w, f.n_records()), V::L(pairs.iter().map(|(a, b)| V::T(vec![n(*a), n(*b)])).collect())]);
        out.push(Case { input, obs, tags });
    }
    out
}

pub fn cases(rng: &mut Rng, count: usize, tier: &str) -> Vec<Case> {
    let mut out = vec![];
    while out.len() < count {
        let mut o = Opts::default();
        o.min_terms = 2;
        o.max_terms = if tier == "thorough" && rng.chance(1, 6) { 22 } else { 11 };
        o.max_records = 1;
        o.dense = rng.chance(1, 2);
        let mut tags = vec![];
        let (w, f) = world::gen_world(rng, o, &mut tags);
        let b = w.build();
        let obs = world::on_onto(&b, obs_c11);
        tags.extend(tags_for(&f));
        out.push(Case { input: world::winput(&w, f.n_records()), obs, tags });
    }
    out
}
