//! C11: distances and paths.
use crate::c01::tags_for;
use crate::dump::gids;
use crate::gen::Opts;
use crate::rng::Rng;
use crate::v::{ln, n, nu, V};
use crate::world;
use crate::Case;
use hpo::annotations::AnnotationId;
use hpo::{HpoTerm, HpoTermId, Ontology};

fn enc_o(o: Option<usize>) -> V {
    match o {
        Some(x) => V::L(vec![nu(x)]),
        None => V::L(vec![]),
    }
}
fn enc_p(o: Option<Vec<HpoTermId>>) -> V {
    match o {
        Some(p) => V::L(vec![V::L(p.iter().map(|x| n(x.as_u32())).collect())]),
        None => V::L(vec![]),
    }
}

pub fn obs_c11(o: &Ontology) -> V {
    let mut terms: Vec<HpoTerm> = o.hpos().collect();
    terms.sort_by_key(|t| t.id().as_u32());
    let ts: Vec<V> = terms
        .iter()
        .map(|t| V::T(vec![n(t.id().as_u32()), ln(&gids(t.parent_ids())), ln(&gids(t.children_ids())), ln(&gids(t.all_parent_ids()))]))
        .collect();
    let mut ps = vec![];
    for a in &terms {
        for b in &terms {
            ps.push(V::T(vec![
                n(a.id().as_u32()),
                n(b.id().as_u32()),
                enc_o(a.distance_to_ancestor(b)),
                enc_p(a.path_to_ancestor(b)),
                enc_o(a.distance_to_term(b)),
                enc_p(a.path_to_term(b)),
            ]));
        }
    }
    V::T(vec![V::L(ts), V::L(ps)])
}

pub fn cases(rng: &mut Rng, count: usize, tier: &str) -> Vec<Case> {
    let mut out = vec![];
    while out.len() < count {
        let mut o = Opts::default();
        o.min_terms = 2;
        o.max_terms = if tier == "thorough" && rng.chance(1, 6) { 22 } else { 11 };
        o.max_records = 1;
        o.dense = rng.chance(1, 2);
        let mut tags = vec![];
        let (w, f) = world::gen_world(rng, o, &mut tags);
        let b = w.build();
        let obs = world::on_onto(&b, obs_c11);
        tags.extend(tags_for(&f));
        out.push(Case { input: world::winput(&w, f.n_records()), obs, tags });
    }
    out
}
