//! C12: HpoGroup as a sorted set.
use crate::rng::Rng;
use crate::v::{b, ln, n, nu, V};
use crate::Case;
use hpo::term::HpoGroup;
use hpo::HpoTermId;
use std::collections::HashSet;

fn ids(g: &HpoGroup) -> Vec<u32> {
    use hpo::annotations::AnnotationId;
    g.iter().map(|i| i.as_u32()).collect()
}

fn gen_ids(rng: &mut Rng, len: usize) -> Vec<u32> {
    // small universe (many repeats) / medium / sparse up to the id space border
    let universe = match rng.below(4) {
        0 => 8,
        1 => 40,
        2 => 200,
        _ => 10_000_000,
    };
    // one time in eight: ids that straddle a byte-width border (2^8, 2^16, 2^24, 2^31)
    let straddle: Option<u32> = if rng.chance(1, 8) { Some(*rng.pick(&[216u32, 65_496, 16_777_176, 2_147_483_608])) } else { None };
    (0..len)
        .map(|_| {
            if let Some(base) = straddle {
                base + rng.below(80) as u32
            } else if rng.chance(1, 40) {
                *rng.pick(&[0u32, 1, 118, 9_999_999, u32::MAX])
            } else {
                rng.below(universe) as u32
            }
        })
        .collect()
}

fn gen_len(rng: &mut Rng) -> usize {
    if rng.chance(1, 40) {
        return rng.range(250, 300) as usize; // beyond 255 members
    }
    match rng.below(6) {
        0 => rng.below(3) as usize,
        1 | 2 => rng.range(3, 12) as usize,
        3 => rng.range(26, 36) as usize, // around the inline-storage limit of 30
        4 => rng.range(12, 28) as usize,
        _ => rng.range(36, 70) as usize,
    }
}

pub fn case(kind: u32, xs: &[u32], ys: &[u32]) -> Case {
    let input = V::T(vec![n(kind), ln(xs), ln(ys)]);
    let mut tags = vec![];
    let obs = match kind {
        0 => {
            let mut g = HpoGroup::new();
            let mut flags = vec![];
            for x in xs {
                flags.push(b(g.insert(*x)));
            }
            let cont: Vec<V> = ys.iter().map(|y| b(g.contains(&HpoTermId::from(*y)))).collect();
            let gets: Vec<V> = (0..g.len() + 2)
                .map(|i| match g.get(i) {
                    Some(x) => {
                        use hpo::annotations::AnnotationId;
                        n(u64::from(x.as_u32()) + 1)
                    }
                    None => n(0u32),
                })
                .collect();
            if g.len() > 30 {
                tags.push("spilled");
            }
            if g.len() >= 2 && g.len() < xs.len() {
                tags.push("nt");
            }
            V::L(vec![
                V::L(flags),
                ln(&ids(&g)),
                V::L(vec![nu(g.len()), b(g.is_empty())]),
                V::L(cont),
                V::L(gets),
            ])
        }
        1 => {
            let a: HpoGroup = xs.iter().map(|x| HpoTermId::from(*x)).collect();
            let bb: HpoGroup = ys.iter().map(|x| HpoTermId::from(*x)).collect();
            let p1 = HpoTermId::from(ys.first().copied().unwrap_or(0));
            let p2 = HpoTermId::from(xs.first().copied().unwrap_or(0));
            let u = &a | &bb;
            let u2 = &bb | &a;
            let i = &a & &bb;
            let i2 = &bb & &a;
            // the owned and mixed operator variants and the iterator of &HpoGroup are the same operations
            assert_eq!(ids(&(a.clone() | bb.clone())), ids(&u), "owned | owned");
            assert_eq!(ids(&(a.clone() | &bb)), ids(&u), "owned | &borrowed");
            assert_eq!(ids(&(a.clone() & bb.clone())), ids(&i), "owned & owned");
            assert_eq!(ids(&(a.clone() & &bb)), ids(&i), "owned & &borrowed");
            // (with an id that is new, with members, and with the largest member)
            let mut operands = vec![p1, p2];
            if let Some(last) = a.iter().last() {
                operands.push(last);
            }
            if let Some(first) = a.iter().next() {
                operands.push(first);
            }
            for p in operands {
                assert_eq!(ids(&(a.clone() + p)), ids(&(&a + p)), "owned + id");
                assert_eq!(ids(&(&a | p)), ids(&(&a + p)), "& | id");
            }
            {
                use hpo::annotations::AnnotationId;
                let via_into: Vec<u32> = (&u).into_iter().map(|x| x.as_u32()).collect();
                assert_eq!(via_into, ids(&u), "IntoIterator for &HpoGroup");
            }
            if !i.is_empty() && u.len() > a.len() && u.len() > bb.len() {
                tags.push("nt");
            }
            if a.len() == bb.len() {
                tags.push("eqlen");
            }
            if u.len() > 30 {
                tags.push("spilled");
            }
            V::L(vec![
                ln(&ids(&a)),
                ln(&ids(&bb)),
                ln(&ids(&u)),
                ln(&ids(&u2)),
                ln(&ids(&i)),
                ln(&ids(&i2)),
                ln(&ids(&(&a + p1))),
                ln(&ids(&(&a | p1))),
                ln(&ids(&(&a + p2))),
                ln(&ids(&(&a | p2))),
                V::L(vec![nu(u.len()), nu(i.len()), b(i.is_empty())]),
            ])
        }
        _ => {
            let v1: Vec<HpoTermId> = xs.iter().map(|x| HpoTermId::from(*x)).collect();
            let g1 = HpoGroup::from(v1.clone());
            let g2 = HpoGroup::from(xs.to_vec());
            let hs: HashSet<HpoTermId> = v1.iter().copied().collect();
            let g3 = HpoGroup::from(hs);
            let g4: HpoGroup = v1.iter().copied().collect();
            // FromIterator<HpoTerm>: the terms of an ontology holding these ids, in the given order (repeats kept)
            let g5: HpoGroup = if xs.iter().all(|x| *x >= 1 && *x < 10_000_000) {
                let mut bld = hpo::builder::Builder::new();
                for x in xs {
                    bld.new_term("t", *x);
                }
                let ont = bld.terms_complete().connect_all_terms().calculate_information_content().expect("ic").build_minimal();
                xs.iter().map(|x| ont.hpo(HpoTermId::from(*x)).expect("term")).collect()
            } else {
                v1.iter().copied().collect()
            };
            if g1.len() >= 2 {
                tags.push("nt");
            }
            V::L(vec![ln(&ids(&g1)), ln(&ids(&g2)), ln(&ids(&g3)), ln(&ids(&g4)), ln(&ids(&g5))])
        }
    };
    Case { input, obs, tags }
}

pub fn cases(rng: &mut Rng, count: usize, tier: &str) -> Vec<Case> {
    let mut out = vec![];
    // boundary cases first
    out.push(case(0, &[], &[0, 1]));
    out.push(case(1, &[], &[]));
    out.push(case(1, &[1, 2, 3], &[]));
    out.push(case(1, &[], &[1, 2, 3]));
    out.push(case(1, &[1, 2, 3], &[1, 2, 3]));
    out.push(case(1, &[1, 2, 3], &[4, 5, 6]));
    out.push(case(1, &[4, 5, 6], &[1, 2, 3]));
    out.push(case(2, &[], &[]));
    if tier == "thorough" {
        // all pairs of subsets of an 8-element universe
        for a in 0u32..256 {
            for bm in 0u32..256 {
                let xs: Vec<u32> = (0..8).filter(|i| a >> i & 1 == 1).map(|i| i * 3 + 1).collect();
                let ys: Vec<u32> = (0..8).filter(|i| bm >> i & 1 == 1).map(|i| i * 3 + 1).collect();
                out.push(case(1, &xs, &ys));
            }
        }
    }
    while out.len() < count {
        let kind = match rng.below(10) {
            0..=3 => 0,
            4..=8 => 1,
            _ => 2,
        };
        let lx = gen_len(rng);
        let xs = gen_ids(rng, lx);
        let ys = match rng.below(5) {
            0 => xs.clone(),                                   // equal
            1 => xs.iter().copied().filter(|_| rng.chance(1, 2)).collect(), // nested
            2 => {
                // same length, overlapping
                let mut ys = gen_ids(rng, lx);
                for (i, y) in ys.iter_mut().enumerate() {
                    if rng.chance(1, 3) {
                        *y = xs[i];
                    }
                }
                ys
            }
            _ => {
                let ly = gen_len(rng);
                let mut ys = gen_ids(rng, ly);
                for y in ys.iter_mut() {
                    if !xs.is_empty() && rng.chance(1, 4) {
                        *y = *rng.pick(&xs);
                    }
                }
                ys
            }
        };
        out.push(case(kind, &xs, &ys));
    }
    out
}

// ---------------- C12t: ancestor queries of two terms ----------------

fn obs_c12t(o: &hpo::Ontology) -> V {
    use hpo::annotations::AnnotationId;
    let mut terms: Vec<hpo::HpoTerm> = o.hpos().collect();
    terms.sort_by_key(|t| t.id().as_u32());
    let ts: Vec<V> = terms
        .iter()
        .map(|t| {
            V::T(vec![
                n(t.id().as_u32()),
                ln(&crate::dump::gids(t.parent_ids())),
                ln(&crate::dump::gids(t.children_ids())),
                ln(&crate::dump::gids(t.all_parent_ids())),
            ])
        })
        .collect();
    // Combined is not nameable from outside the crate
    macro_rules! it {
        ($c:expr) => {
            ln(&$c.iter().map(|t| t.id().as_u32()).collect::<Vec<u32>>())
        };
    }
    let mut ps = vec![];
    for a in &terms {
        for bt in &terms {
            ps.push(V::T(vec![
                n(a.id().as_u32()),
                n(bt.id().as_u32()),
                V::L(vec![
                    ln(&ids(&a.common_ancestor_ids(bt))),
                    ln(&ids(&a.all_common_ancestor_ids(bt))),
                    ln(&ids(&a.union_ancestor_ids(bt))),
                    ln(&ids(&a.all_union_ancestor_ids(bt))),
                    it!(a.common_ancestors(bt)),
                    it!(a.all_common_ancestors(bt)),
                    it!(a.union_ancestors(bt)),
                    it!(a.all_union_ancestors(bt)),
                ]),
            ]));
        }
    }
    V::T(vec![V::L(ts), V::L(ps)])
}

pub fn cases_t(rng: &mut Rng, count: usize, tier: &str) -> Vec<Case> {
    use crate::gen::Opts;
    let mut out = vec![];
    while out.len() < count {
        let mut o = Opts::default();
        o.min_terms = 2;
        o.max_terms = if tier == "thorough" && rng.chance(1, 6) { 22 } else { 12 };
        o.max_records = 1;
        o.dense = rng.chance(1, 2);
        let mut tags = vec![];
        let (w, f) = crate::world::gen_world(rng, o, &mut tags);
        let b = w.build();
        let obs = crate::world::on_onto(&b, obs_c12t);
        // non-trivial: some term with two or more ancestors (an ancestor pair with a proper ancestor between)
        if f.ids().iter().any(|x| f.ancestors(*x).len() >= 2) {
            tags.push("nt");
        }
        out.push(Case { input: crate::world::winput(&w, f.n_records()), obs, tags });
    }
    out
}
