//! C14: sub-ontologies.
use crate::dump;
use crate::gen::Opts;
use crate::rng::Rng;
use crate::v::{ln, n, V};
use crate::world::{self, World};
use crate::Case;

pub fn cases(rng: &mut Rng, count: usize, tier: &str) -> Vec<Case> {
    let mut out = vec![];
    while out.len() < count {
        let mut o = Opts::default();
        o.min_terms = 3;
        o.max_terms = if tier == "thorough" && rng.chance(1, 6) { 22 } else { 11 };
        o.roots_eighths = 6;
        o.max_records = 4;
        o.dense = rng.chance(1, 2);
        // names beyond the 255-byte limit of the binary term record: a sub-ontology copies them verbatim
        o.long_names = rng.chance(1, 6);
        let mut tags = vec![];
        if o.long_names {
            tags.push("long_names");
        }
        let (w, f) = world::gen_world_custom(rng, o, &mut tags, 4);
        let (root, leaves) = if f.has(1) && rng.chance(1, 3) {
            // from the top: modifier branches are in reach
            let (_, l) = world::gen_sub_args(rng, &f);
            let l2: Vec<u32> = l.into_iter().map(|x| if f.ancestors(x).contains(&1) || x == 1 { x } else { 1 }).collect();
            (1u32, l2)
        } else {
            world::gen_sub_args(rng, &f)
        };
        let src = w.build();
        let sub = World::Sub(Box::new(w.clone()), root, leaves.clone()).build();
        let obs = match &src {
            None => V::C("Panic", vec![]),
            Some(world::Built { result: Err(e), .. }) => dump::err_v(e),
            Some(world::Built { result: Ok(o), .. }) => {
                let d = crate::catch(std::panic::AssertUnwindSafe(|| dump::dump_onto(o)));
                match d {
                    None => V::C("Panic", vec![]),
                    Some(d) => {
                        let r = match &sub {
                            None => V::C("Panic", vec![]),
                            Some(world::Built { result: Ok(s), .. }) => dump::dump_res(s),
                            Some(world::Built { result: Err(e), .. }) => dump::err_v(e),
                        };
                        V::C("Ok", vec![V::T(vec![d, r])])
                    }
                }
            }
        };
        let valid = leaves.iter().all(|l| *l == root || f.ancestors(*l).contains(&root));
        if valid && leaves.len() >= 2 {
            tags.push("nt");
        }
        if !valid {
            tags.push("leaf_outside");
        }
        let input = V::T(vec![w.to_v(), dump::ln_table(f.n_records()), n(root), ln(&leaves)]);
        out.push(Case { input, obs, tags });
    }
    out
}
