//! Canonical observation of an Ontology through its public read API
//! (same shape as Model/Dump.v `donto`).
use crate::v::{b, bytes, ln, n, nu, V};
use hpo::annotations::{AnnotationId, Disease};
use hpo::term::HpoGroup;
use hpo::{HpoTerm, Ontology};

pub fn f32_bits(x: f32) -> u32 {
    if x.is_nan() {
        0x7fc0_0000
    } else {
        x.to_bits()
    }
}

pub fn gids(g: &HpoGroup) -> Vec<u32> {
    g.iter().map(|i| i.as_u32()).collect()
}

pub fn sorted<T: Ord>(mut v: Vec<T>) -> Vec<T> {
    v.sort();
    v
}

pub fn version(o: &Ontology) -> V {
    let s = o.hpo_version();
    let parts: Vec<u32> = s.split('-').map(|p| p.parse::<u32>().unwrap_or(u32::MAX)).collect();
    V::T(parts.into_iter().map(n).collect())
}

pub fn dump_term(t: &HpoTerm) -> V {
    // resolving iterators: they panic on an id that is not in the ontology; and every door to the same facts
    // must show the same facts (the term iterators against the id groups, the record iterators against the id
    // sets) — a disagreement is a panic of the observation, which no model outcome matches
    let term_ids = |it: &mut dyn Iterator<Item = HpoTerm>| -> Vec<u32> { sorted(it.map(|x| x.id().as_u32()).collect()) };
    assert_eq!(term_ids(&mut t.parents()), gids(t.parent_ids()), "parents() vs parent_ids()");
    assert_eq!(term_ids(&mut t.children()), gids(t.children_ids()), "children() vs children_ids()");
    assert_eq!(term_ids(&mut t.all_parents()), gids(t.all_parent_ids()), "all_parents() vs all_parent_ids()");
    assert_eq!(sorted(t.genes().map(|g| g.id().as_u32()).collect::<Vec<u32>>()), sorted(t.gene_ids().iter().map(|g| g.as_u32()).collect::<Vec<u32>>()), "genes() vs gene_ids()");
    assert_eq!(
        sorted(t.omim_diseases().map(|g| g.id().as_u32()).collect::<Vec<u32>>()),
        sorted(t.omim_disease_ids().iter().map(|g| g.as_u32()).collect::<Vec<u32>>()),
        "omim_diseases() vs omim_disease_ids()"
    );
    assert_eq!(
        sorted(t.orpha_diseases().map(|g| g.id().as_u32()).collect::<Vec<u32>>()),
        sorted(t.orpha_disease_ids().iter().map(|g| g.as_u32()).collect::<Vec<u32>>()),
        "orpha_diseases() vs orpha_disease_ids()"
    );
    let ic = t.information_content();
    V::T(vec![
        n(t.id().as_u32()),
        bytes(t.name().as_bytes()),
        b(t.is_obsolete()),
        crate::v::optn(t.replacement_id().map(|x| x.as_u32())),
        crate::v::optn(t.replaced_by().map(|x| x.id().as_u32())),
        ln(&gids(t.parent_ids())),
        ln(&gids(t.children_ids())),
        ln(&gids(t.all_parent_ids())),
        ln(&sorted(t.gene_ids().iter().map(|g| g.as_u32()).collect())),
        ln(&sorted(t.omim_disease_ids().iter().map(|g| g.as_u32()).collect())),
        ln(&sorted(t.orpha_disease_ids().iter().map(|g| g.as_u32()).collect())),
        V::T(vec![n(f32_bits(ic.gene())), n(f32_bits(ic.omim_disease())), n(f32_bits(ic.orpha_disease()))]),
        b(t.is_modifier()),
        V::L(t.categories().iter().map(|c| n(c.as_u32())).collect()),
    ])
}

pub fn dump_onto(o: &Ontology) -> V {
    let mut terms: Vec<HpoTerm> = o.hpos().collect();
    terms.sort_by_key(|t| t.id().as_u32());
    // the three ways to walk the terms, and the two ways to a single term, agree
    {
        let a: Vec<u32> = terms.iter().map(|t| t.id().as_u32()).collect();
        let b2: Vec<u32> = sorted(o.iter().map(|t| t.id().as_u32()).collect());
        let c2: Vec<u32> = sorted((&*o).into_iter().map(|t| t.id().as_u32()).collect());
        assert_eq!(a, b2, "hpos() vs iter()");
        assert_eq!(a, c2, "hpos() vs into_iter()");
        for t in &terms {
            let via_new = HpoTerm::try_new(o, t.id()).expect("HpoTerm::try_new on a listed term");
            assert_eq!(via_new.name(), t.name(), "try_new vs hpos()");
            let via_hpo = o.hpo(t.id()).expect("Ontology::hpo on a listed term");
            assert_eq!(via_hpo.name(), t.name(), "hpo() vs hpos()");
        }
        // lookups by id return the record the iterators list
        for g in o.genes() {
            assert!(o.gene(g.id()).map_or(false, |x| x.id() == g.id() && x.name() == g.name()), "gene(id) vs genes()");
        }
        for g in o.omim_diseases() {
            assert!(o.omim_disease(g.id()).map_or(false, |x| x.id() == g.id() && x.name() == g.name()), "omim_disease(id) vs omim_diseases()");
        }
        for g in o.orpha_diseases() {
            assert!(o.orpha_disease(g.id()).map_or(false, |x| x.id() == g.id() && x.name() == g.name()), "orpha_disease(id) vs orpha_diseases()");
        }
    }
    let mut genes: Vec<_> = o.genes().collect();
    genes.sort_by_key(|g| g.id().as_u32());
    let mut omim: Vec<_> = o.omim_diseases().collect();
    omim.sort_by_key(|g| g.id().as_u32());
    let mut orpha: Vec<_> = o.orpha_diseases().collect();
    orpha.sort_by_key(|g| g.id().as_u32());
    V::T(vec![
        version(o),
        V::L(terms.iter().map(dump_term).collect()),
        V::L(genes
            .iter()
            .map(|g| {
                let via_set: Vec<u32> = sorted(g.to_hpo_set(o).iter().map(|x| x.id().as_u32()).collect());
                assert_eq!(via_set, gids(g.hpo_terms()), "to_hpo_set() vs hpo_terms()");
                V::T(vec![n(g.id().as_u32()), bytes(g.name().as_bytes()), ln(&gids(g.hpo_terms()))])
            })
            .collect()),
        V::L(omim
            .iter()
            .map(|g| {
                let via_set: Vec<u32> = sorted(g.to_hpo_set(o).iter().map(|x| x.id().as_u32()).collect());
                assert_eq!(via_set, gids(g.hpo_terms()), "to_hpo_set() vs hpo_terms()");
                V::T(vec![n(g.id().as_u32()), bytes(g.name().as_bytes()), ln(&gids(g.hpo_terms()))])
            })
            .collect()),
        V::L(orpha
            .iter()
            .map(|g| {
                let via_set: Vec<u32> = sorted(g.to_hpo_set(o).iter().map(|x| x.id().as_u32()).collect());
                assert_eq!(via_set, gids(g.hpo_terms()), "to_hpo_set() vs hpo_terms()");
                V::T(vec![n(g.id().as_u32()), bytes(g.name().as_bytes()), ln(&gids(g.hpo_terms()))])
            })
            .collect()),
        ln(&gids(o.categories())),
        ln(&gids(o.modifier())),
        nu(o.len()),
    ])
}

/// `res donto`: Ok(dump) or Panic when any accessor panics
pub fn dump_res(o: &Ontology) -> V {
    match crate::catch(std::panic::AssertUnwindSafe(|| dump_onto(o))) {
        Some(v) => V::C("Ok", vec![v]),
        None => V::C("Panic", vec![]),
    }
}

pub fn err_v(e: &hpo::HpoError) -> V {
    use hpo::HpoError::*;
    let name = match e {
        NotImplemented => "NotImplemented",
        DoesNotExist => "DoesNotExist",
        ParseIntError => "ParseIntError",
        ParseBinaryError => "ParseBinaryError",
        TryFromIntError(_) => "TryFromIntError",
        InvalidInput(_) => "InvalidInput",
        CannotOpenFile(_) => "CannotOpenFile",
    };
    V::C("Err", vec![V::C(name, vec![])])
}

/// table of the runtime's `f32::ln` on every quotient n/N with 1 <= n <= N <= max_n
/// the ln values for counts 1..=max_n over the given totals (and over each other, as ln_table)
pub fn ln_table_totals(max_n: usize, totals: &[usize]) -> V {
    let mut seen = std::collections::BTreeMap::new();
    for total in 1..=max_n {
        for cur in 1..=total {
            let q = (cur as u16 as f32) / (total as u16 as f32);
            seen.insert(f32_bits(q), f32_bits(q.ln()));
        }
    }
    for total in totals {
        if *total == 0 || *total > 65535 {
            continue;
        }
        for cur in 1..=max_n.min(*total) {
            let q = (cur as u16 as f32) / (*total as u16 as f32);
            seen.insert(f32_bits(q), f32_bits(q.ln()));
        }
    }
    V::L(seen.into_iter().map(|(a, r)| V::T(vec![n(a), n(r)])).collect())
}

pub fn ln_table(max_n: usize) -> V {
    let mut seen = std::collections::BTreeMap::new();
    for total in 1..=max_n {
        for cur in 1..=total {
            let q = (cur as u16 as f32) / (total as u16 as f32);
            seen.insert(f32_bits(q), f32_bits(q.ln()));
        }
    }
    V::L(seen.into_iter().map(|(a, r)| V::T(vec![n(a), n(r)])).collect())
}
