//! Builder scripts: the same call sequence is run on the real Builder and
//! printed for Model/Script.v.
use crate::dump;
use crate::gen::Facts;
use crate::rng::Rng;
use crate::v::{bytes, n, V};
use hpo::annotations::{GeneId, OmimDiseaseId, OrphaDiseaseId};
use hpo::builder::Builder;
use hpo::{HpoError, HpoTermId, Ontology};

#[derive(Clone, Debug)]
pub struct Script {
    pub version: (u16, u8, u8),
    pub terms: Vec<(u32, String)>,
    /// (parent, child)
    pub parents: Vec<(u32, u32)>,
    /// (tag, id, term, name)
    pub annots: Vec<(u8, u32, u32, String)>,
    pub kindb: u8,
}

impl Script {
    pub fn to_v(&self) -> V {
        V::T(vec![
            V::T(vec![n(self.version.0), n(self.version.1), n(self.version.2)]),
            V::L(self.terms.iter().map(|(id, name)| V::T(vec![n(*id), bytes(name.as_bytes())])).collect()),
            V::L(self.parents.iter().map(|(p, c)| V::T(vec![n(*p), n(*c)])).collect()),
            V::L(self.annots.iter().map(|(t, id, term, name)| V::T(vec![n(*t), n(*id), n(*term), bytes(name.as_bytes())])).collect()),
            n(self.kindb),
        ])
    }
}

/// Facts -> script with every list in a random order; add_* calls for every record
/// (so that records without terms exist), interleaved with the annotate_* calls.
pub fn script_from_facts(rng: &mut Rng, f: &Facts, kindb: u8) -> Script {
    script_from_facts_opt(rng, f, kindb, true)
}

/// `shuffle_terms = false` keeps the order of `f.terms` (e.g. descendants first)
pub fn script_from_facts_opt(rng: &mut Rng, f: &Facts, kindb: u8, shuffle_terms: bool) -> Script {
    let mut terms: Vec<(u32, String)> = f.terms.iter().map(|t| (t.id, t.name.clone())).collect();
    if shuffle_terms {
        rng.shuffle(&mut terms);
    }
    let mut parents: Vec<(u32, u32)> = f.links.iter().map(|(c, p)| (*p, *c)).collect();
    rng.shuffle(&mut parents);
    let mut annots = vec![];
    for (k, recs) in [&f.genes, &f.omim, &f.orpha].iter().enumerate() {
        for r in recs.iter() {
            if r.terms.is_empty() || rng.chance(1, 3) {
                annots.push((k as u8, r.id, 0, r.name.clone()));
            }
            for t in &r.terms {
                annots.push((3 + k as u8, r.id, *t, r.name.clone()));
            }
        }
    }
    rng.shuffle(&mut annots);
    Script { version: f.version, terms, parents, annots, kindb }
}

fn code(r: &Result<(), HpoError>) -> V {
    match r {
        Ok(()) => n(0u32),
        Err(HpoError::DoesNotExist) => n(1u32),
        Err(_) => n(9u32),
    }
}

/// runs the script; returns (codes, Ok(ontology) | Err) or None when a call panicked
pub fn run(s: &Script) -> Option<(Vec<V>, Result<Ontology, HpoError>)> {
    run_bulk(s, None)
}

/// `bulk` = (tag, first, count): `count` add_gene / add_omim_disease / add_orpha_disease calls with ids
/// first, first+1, ... and the name "g", made right after connect_all_terms (Model/Bulk.v)
pub fn run_bulk(s: &Script, bulk: Option<(u8, u32, u32)>) -> Option<(Vec<V>, Result<Ontology, HpoError>)> {
    crate::catch(std::panic::AssertUnwindSafe(|| {
        let mut codes = vec![];
        let mut b = Builder::new();
        b.set_hpo_version(s.version);
        for (id, name) in &s.terms {
            b.new_term(name, *id);
        }
        let mut b = b.terms_complete();
        for (p, c) in &s.parents {
            codes.push(code(&b.add_parent(*p, *c)));
        }
        let mut b = b.connect_all_terms();
        if let Some((tag, first, count)) = bulk {
            for i in 0..count {
                match tag {
                    0 => {
                        b.add_gene("g", GeneId::from(first + i));
                    }
                    1 => {
                        b.add_omim_disease("g", OmimDiseaseId::from(first + i));
                    }
                    _ => {
                        b.add_orpha_disease("g", OrphaDiseaseId::from(first + i));
                    }
                }
                codes.push(n(0u32));
            }
        }
        for (tag, id, term, name) in &s.annots {
            match tag {
                0 => {
                    b.add_gene(name, GeneId::from(*id));
                    codes.push(n(0u32));
                }
                1 => {
                    b.add_omim_disease(name, OmimDiseaseId::from(*id));
                    codes.push(n(0u32));
                }
                2 => {
                    b.add_orpha_disease(name, OrphaDiseaseId::from(*id));
                    codes.push(n(0u32));
                }
                3 => codes.push(code(&b.annotate_gene(GeneId::from(*id), name, HpoTermId::from(*term)))),
                4 => codes.push(code(&b.annotate_omim_disease(OmimDiseaseId::from(*id), name, HpoTermId::from(*term)))),
                _ => codes.push(code(&b.annotate_orpha_disease(OrphaDiseaseId::from(*id), name, HpoTermId::from(*term)))),
            }
        }
        let r = match b.calculate_information_content() {
            Err(e) => Err(e),
            Ok(b) => {
                if s.kindb == 0 {
                    Ok(b.build_minimal())
                } else {
                    b.build_with_defaults()
                }
            }
        };
        (codes, r)
    }))
}

/// observation in the shape of Model/Script.v run_script composed with dump_onto:
/// res (list N * res donto)
pub fn observe(s: &Script) -> (V, Option<Ontology>) {
    match run(s) {
        None => (V::C("Panic", vec![]), None),
        Some((codes, Ok(o))) => (V::C("Ok", vec![V::T(vec![V::L(codes), dump::dump_res(&o)])]), Some(o)),
        Some((codes, Err(e))) => (V::C("Ok", vec![V::T(vec![V::L(codes), dump::err_v(&e)])]), None),
    }
}
