//! C04: built-in term similarities.
use crate::dump::{self, f32_bits};
use crate::gen::Opts;
use crate::rng::Rng;
use crate::v::{n, V};
use crate::world;
use crate::Case;
use hpo::similarity::{Builtins, Distance, GraphIc, InformationCoefficient, Jc, Lin, Mutation, Relevance, Resnik, Similarity};
use hpo::term::InformationContentKind;
use hpo::annotations::AnnotationId;
use hpo::{HpoTerm, Ontology};
use std::collections::BTreeMap;

const PANIC: u128 = 4_294_967_297;
const DISPATCH_MISMATCH: u128 = 4_294_967_301;

const NAMES: [&str; 8] = ["graphic", "resnik", "lin", "jc", "relevance", "ic", "distance", "mutation"];
const KINDS: [InformationContentKind; 3] = [InformationContentKind::Gene, InformationContentKind::Omim, InformationContentKind::Orpha];

fn direct(g: usize, kind: InformationContentKind, a: &HpoTerm, b: &HpoTerm) -> f32 {
    match g {
        0 => GraphIc::new(kind).calculate(a, b),
        1 => Resnik::new(kind).calculate(a, b),
        2 => Lin::new(kind).calculate(a, b),
        3 => Jc::new(kind).calculate(a, b),
        4 => Relevance::new(kind).calculate(a, b),
        5 => InformationCoefficient::new(kind).calculate(a, b),
        6 => Distance::new().calculate(a, b),
        _ => Mutation::new(kind).calculate(a, b),
    }
}

fn score(g: usize, k: usize, a: &HpoTerm, b: &HpoTerm, alt_name: bool) -> V {
    let kind = KINDS[k];
    let r = crate::catch(std::panic::AssertUnwindSafe(|| {
        // by name (upper / lower case, aliases) and kind, through HpoTerm::similarity_score
        let name = if alt_name {
            match g {
                4 => "rel".to_string(),
                5 => "InformationCoefficient".to_string(),
                6 => "dist".to_string(),
                7 => "mut".to_string(),
                3 => "jc2".to_string(),
                _ => NAMES[g].to_uppercase(),
            }
        } else {
            NAMES[g].to_string()
        };
        let bi = Builtins::new(&name, kind).expect("builtin name");
        let x = a.similarity_score(b, &bi);
        let y = direct(g, kind, a, b);
        (f32_bits(x), f32_bits(y))
    }));
    match r {
        None => V::N(PANIC),
        Some((x, y)) if x == y => n(x),
        Some(_) => V::N(DISPATCH_MISMATCH),
    }
}

fn exp_table(o: &Ontology) -> V {
    let mut t: BTreeMap<u32, u32> = BTreeMap::new();
    let mut add = |ic: f32| {
        let x = ic * -1.0;
        t.insert(f32_bits(x), f32_bits(x.exp()));
    };
    add(0.0);
    for term in o.hpos() {
        let ic = term.information_content();
        add(ic.gene());
        add(ic.omim_disease());
        add(ic.orpha_disease());
    }
    V::L(t.into_iter().map(|(a, b)| V::T(vec![n(a), n(b)])).collect())
}

pub fn cases(rng: &mut Rng, count: usize, tier: &str) -> Vec<Case> {
    let mut out = vec![];
    while out.len() < count {
        let mut o = Opts::default();
        o.min_terms = 2;
        o.max_terms = if tier == "thorough" && rng.chance(1, 5) { 16 } else { 9 };
        o.max_records = 6;
        o.dense = rng.chance(1, 2);
        o.small_ids = rng.chance(1, 2);
        let mut tags = vec![];
        let (w, f) = world::gen_world(rng, o, &mut tags);
        let bl = w.build();
        let alt = rng.chance(1, 2);
        let etbl = match &bl {
            Some(world::Built { result: Ok(ont), .. }) => crate::catch(std::panic::AssertUnwindSafe(|| exp_table(ont))).unwrap_or(V::L(vec![])),
            _ => V::L(vec![]),
        };
        let obs = world::on_onto(&bl, |ont: &Ontology| {
            let mut terms: Vec<HpoTerm> = ont.hpos().collect();
            terms.sort_by_key(|t| t.id().as_u32());
            let mut ps = vec![];
            for a in &terms {
                for b in &terms {
                    let mut sc = vec![];
                    for g in 0..8 {
                        for k in 0..3 {
                            sc.push(score(g, k, a, b, alt));
                        }
                    }
                    ps.push(V::T(vec![n(a.id().as_u32()), n(b.id().as_u32()), V::L(sc)]));
                }
            }
            V::T(vec![dump::dump_onto(ont), V::L(ps)])
        });
        if f.has_diamond() && f.depth() >= 2 && f.n_records() >= 2 {
            tags.push("nt");
        }
        if [&f.genes, &f.omim, &f.orpha].iter().any(|r| r.is_empty()) {
            tags.push("emptykind");
        }
        let input = V::T(vec![w.to_v(), dump::ln_table(f.n_records()), etbl]);
        out.push(Case { input, obs, tags });
    }
    out
}
