//! C18: ontology comparison reports exactly the differences.
use crate::build;
use crate::dump;
use crate::gen::{self, AnnF, Facts, Opts, TermF};
use crate::rng::Rng;
use crate::v::{b, bytes, ln, n, nu, V};
use crate::world::{self, World};
use crate::Case;
use hpo::annotations::{AnnotationId, Disease};
use hpo::comparison::{AnnotationDelta, Comparison, HpoTermDelta};
use hpo::{HpoTermId, Ontology};

fn ids_sorted(mut v: Vec<u32>) -> V {
    v.sort();
    ln(&v)
}

fn tids(v: Option<&Vec<HpoTermId>>) -> V {
    ids_sorted(v.map(|x| x.iter().map(|i| i.as_u32()).collect()).unwrap_or_default())
}

fn name_pair(p: Option<&(String, String)>) -> V {
    match p {
        None => V::L(vec![]),
        Some((a, c)) => V::L(vec![bytes(a.as_bytes()), bytes(c.as_bytes())]),
    }
}

fn tdelta(d: &HpoTermDelta) -> (u32, V) {
    let ob = match d.changed_obsolete() {
        None => V::L(vec![]),
        Some((x, y)) => V::L(vec![b(x), b(y)]),
    };
    let rp = match d.changed_replacement() {
        None => V::L(vec![]),
        Some((x, y)) => V::L(vec![crate::v::optn(x.map(|i| i.as_u32())), crate::v::optn(y.map(|i| i.as_u32()))]),
    };
    let id = d.id().as_u32();
    (id, V::T(vec![n(id), name_pair(d.changed_name()), tids(d.added_parents()), tids(d.removed_parents()), ob, rp]))
}

/// "NCBI-GeneID:12" / "OMIM:12" / "ORPHA:12" -> 12 when the prefix is the one of the kind, else a marker
fn parse_id(s: &str, prefix: &str) -> u128 {
    match s.strip_prefix(prefix).and_then(|x| x.parse::<u32>().ok()) {
        Some(x) => u128::from(x),
        None => (1u128 << 40) + s.len() as u128,
    }
}

fn adelta(d: &AnnotationDelta, prefix: &str) -> (u128, V) {
    let id = parse_id(d.id(), prefix);
    let (n1, n2) = d.n_terms();
    (id, V::T(vec![V::N(id), name_pair(d.changed_name()), V::T(vec![nu(n1), nu(n2)]), tids(d.added_terms()), tids(d.removed_terms())]))
}

fn sort_deltas<K: Ord + Copy>(mut v: Vec<(K, V)>) -> V {
    v.sort_by_key(|x| x.0);
    V::L(v.into_iter().map(|x| x.1).collect())
}

pub fn cmp_v(c: &Comparison) -> V {
    let t = V::T(vec![
        ids_sorted(c.added_hpo_terms().iter().map(|t| t.id().as_u32()).collect()),
        ids_sorted(c.removed_hpo_terms().iter().map(|t| t.id().as_u32()).collect()),
        sort_deltas(c.changed_hpo_terms().iter().map(tdelta).collect()),
    ]);
    let g = V::T(vec![
        ids_sorted(c.added_genes().iter().map(|t| t.id().as_u32()).collect()),
        ids_sorted(c.removed_genes().iter().map(|t| t.id().as_u32()).collect()),
        sort_deltas(c.changed_genes().iter().map(|d| adelta(d, "NCBI-GeneID:")).collect()),
    ]);
    let m = V::T(vec![
        ids_sorted(c.added_omim_diseases().iter().map(|t| t.id().as_u32()).collect()),
        ids_sorted(c.removed_omim_diseases().iter().map(|t| t.id().as_u32()).collect()),
        sort_deltas(c.changed_omim_diseases().iter().map(|d| adelta(d, "OMIM:")).collect()),
    ]);
    let r = V::T(vec![
        ids_sorted(c.added_orpha_diseases().iter().map(|t| t.id().as_u32()).collect()),
        ids_sorted(c.removed_orpha_diseases().iter().map(|t| t.id().as_u32()).collect()),
        sort_deltas(c.changed_orpha_diseases().iter().map(|d| adelta(d, "ORPHA:")).collect()),
    ]);
    V::T(vec![t, g, m, r])
}

/// the name with the case of its ASCII letters swapped
fn swap_case(s: &str) -> String {
    s.chars().map(|c| if c.is_ascii_lowercase() { c.to_ascii_uppercase() } else if c.is_ascii_uppercase() { c.to_ascii_lowercase() } else { c }).collect()
}

fn edit(rng: &mut Rng, f: &mut Facts, flags: bool, tags: &mut Vec<&'static str>) {
    let k = rng.below(15);
    match k {
        0 => {
            // rename a term
            let i = rng.below(f.terms.len() as u64) as usize;
            let swapped = swap_case(&f.terms[i].name);
            if rng.chance(1, 2) && swapped != f.terms[i].name {
                // a rename that differs in letter case only
                f.terms[i].name = swapped;
                tags.push("rename_case_only");
            } else {
                f.terms[i].name = format!("{} x", f.terms[i].name);
            }
            tags.push("rename");
        }
        1 => {
            // add a parent link that keeps the graph acyclic
            for _ in 0..8 {
                let c = rng.pick(&f.terms).id;
                let p = rng.pick(&f.terms).id;
                if c != p && !f.ancestors(p).contains(&c) && !f.links.contains(&(c, p)) {
                    f.links.push((c, p));
                    tags.push("parent_added");
                    break;
                }
            }
        }
        2 => {
            if !f.links.is_empty() {
                let i = rng.below(f.links.len() as u64) as usize;
                // keep HP:118 below HP:1 so that both ontologies still load
                if f.links[i] != (118, 1) {
                    f.links.remove(i);
                    tags.push("parent_removed");
                }
            }
        }
        3 if flags => {
            let i = rng.below(f.terms.len() as u64) as usize;
            if f.terms[i].id != 1 && f.terms[i].id != 118 {
                f.terms[i].obsolete = !f.terms[i].obsolete;
                tags.push("obsolete_flipped");
            }
        }
        4 if flags => {
            let i = rng.below(f.terms.len() as u64) as usize;
            let ids = f.ids();
            f.terms[i].replacement = match rng.below(4) {
                0 => None,
                1 => Some(rng.range(1, 9_999_999) as u32), // dangling: resolves to nothing
                _ => Some(*rng.pick(&ids)),
            };
            tags.push("replacement_changed");
        }
        5 | 6 => {
            // annotation fact added
            let ids = f.ids();
            let recs = match rng.below(3) {
                0 => &mut f.genes,
                1 => &mut f.omim,
                _ => &mut f.orpha,
            };
            if !recs.is_empty() {
                let i = rng.below(recs.len() as u64) as usize;
                recs[i].terms.push(*rng.pick(&ids));
                tags.push("annotation_added");
            }
        }
        7 => {
            let recs = match rng.below(3) {
                0 => &mut f.genes,
                1 => &mut f.omim,
                _ => &mut f.orpha,
            };
            if !recs.is_empty() {
                let i = rng.below(recs.len() as u64) as usize;
                if !recs[i].terms.is_empty() {
                    let t = *rng.pick(&recs[i].terms);
                    recs[i].terms.retain(|x| *x != t);
                    tags.push("annotation_removed");
                }
            }
        }
        8 => {
            let ids = f.ids();
            let recs = match rng.below(3) {
                0 => &mut f.genes,
                1 => &mut f.omim,
                _ => &mut f.orpha,
            };
            let id = rng.range(1, 60) as u32;
            if !recs.iter().any(|r| r.id == id) {
                recs.push(AnnF { id, name: gen::gen_name(rng, false), terms: if rng.chance(1, 3) { vec![] } else { vec![*rng.pick(&ids)] } });
                tags.push("record_added");
            }
        }
        9 => {
            let recs = match rng.below(3) {
                0 => &mut f.genes,
                1 => &mut f.omim,
                _ => &mut f.orpha,
            };
            if !recs.is_empty() {
                let i = rng.below(recs.len() as u64) as usize;
                recs.remove(i);
                tags.push("record_removed");
            }
        }
        10 => {
            let recs = match rng.below(3) {
                0 => &mut f.genes,
                1 => &mut f.omim,
                _ => &mut f.orpha,
            };
            if !recs.is_empty() {
                let i = rng.below(recs.len() as u64) as usize;
                let swapped = swap_case(&recs[i].name);
                if rng.chance(1, 2) && swapped != recs[i].name {
                    recs[i].name = swapped;
                    tags.push("rename_case_only");
                } else {
                    recs[i].name = format!("{}é", recs[i].name);
                }
                tags.push("record_renamed");
            }
        }
        13 | 14 => {
            // the direct term set of a record is rewritten (several terms leave, some arrive)
            let ids = f.ids();
            let recs = match rng.below(3) {
                0 => &mut f.genes,
                1 => &mut f.omim,
                _ => &mut f.orpha,
            };
            if !recs.is_empty() {
                let i = rng.below(recs.len() as u64) as usize;
                let keep = rng.below(3) as usize;
                recs[i].terms.truncate(keep);
                for _ in 0..rng.below(4) {
                    recs[i].terms.push(*rng.pick(&ids));
                }
                tags.push("record_rewritten");
            }
        }
        11 => {
            // a new term below an existing one
            let id = loop {
                let c = rng.range(2, 9_999_999) as u32;
                if !f.has(c) {
                    break c;
                }
            };
            let p = rng.pick(&f.terms).id;
            f.terms.push(TermF { id, name: gen::gen_name(rng, false), obsolete: false, replacement: None });
            f.links.push((id, p));
            tags.push("term_added");
        }
        _ => {
            // remove a term (and every fact that mentions it)
            let cand: Vec<u32> = f.ids().into_iter().filter(|x| *x != 1 && *x != 118).collect();
            if cand.len() >= 2 {
                let t = *rng.pick(&cand);
                f.terms.retain(|x| x.id != t);
                f.links.retain(|(c, p)| *c != t && *p != t);
                for recs in [&mut f.genes, &mut f.omim, &mut f.orpha] {
                    for r in recs.iter_mut() {
                        r.terms.retain(|x| *x != t);
                    }
                }
                tags.push("term_removed");
            }
        }
    }
}

fn mk_world(rng: &mut Rng, f: &Facts, style: u8) -> World {
    match style {
        0 => {
            let kindb = if f.has(1) && f.has(118) { 1 } else { 0 };
            // add_* for every record so that records without terms exist
            let mut s = build::script_from_facts(rng, f, kindb);
            for (k, recs) in [&f.genes, &f.omim, &f.orpha].iter().enumerate() {
                for r in recs.iter() {
                    if !s.annots.iter().any(|(t, id, _, _)| *t == k as u8 && *id == r.id) {
                        s.annots.insert(0, (k as u8, r.id, 0, r.name.clone()));
                    }
                }
            }
            World::Builder(s)
        }
        v => World::Bytes(crate::bin::encode(&crate::bin::restrict(f, v), v, rng)),
    }
}

pub fn cases(rng: &mut Rng, count: usize, tier: &str) -> Vec<Case> {
    let mut out = vec![];
    while out.len() < count {
        let mut o = Opts::default();
        o.min_terms = 2;
        o.max_terms = if tier == "thorough" && rng.chance(1, 6) { 24 } else { 10 };
        o.max_records = 4;
        o.small_ids = rng.chance(1, 2);
        let style = match rng.below(5) {
            0 | 1 => 0u8,
            2 => 2,
            _ => 3,
        };
        o.flags = style != 0;
        if style != 0 {
            o.roots_eighths = 8;
        }
        let f1 = gen::gen_facts(rng, o);
        let mut f2 = f1.clone();
        let mut tags: Vec<&'static str> = vec![];
        let nedits = match rng.below(8) {
            0 => 0,
            1..=4 => 1,
            _ => rng.range(2, 5),
        };
        for _ in 0..nedits {
            edit(rng, &mut f2, style != 0, &mut tags);
        }
        // two releases: different, non-zero release dates, the newer one in either argument position
        // (Ontology::compare takes its arguments as given, whatever their dates)
        let mut f1 = f1;
        if rng.chance(1, 2) {
            let d = |rng: &mut Rng| (rng.range(1990, 2030) as u16, rng.range(1, 12) as u8, rng.range(1, 28) as u8);
            f1.version = d(rng);
            f2.version = loop {
                let v = d(rng);
                if v != f1.version {
                    break v;
                }
            };
            tags.push("two_releases");
        }
        if nedits == 1 && !tags.is_empty() {
            tags.push("nt");
        }
        if nedits == 0 {
            tags.push("identical");
        }
        tags.push(match style {
            0 => "builder",
            2 => "bin_v2",
            _ => "bin_v3",
        });
        let w1 = mk_world(rng, &f1, style);
        let w2 = mk_world(rng, &f2, style);
        let b1 = w1.build();
        let b2 = w2.build();
        let obs = match (&b1, &b2) {
            (None, _) | (_, None) => V::C("Panic", vec![]),
            (Some(world::Built { result: Err(e), .. }), _) => dump::err_v(e),
            (_, Some(world::Built { result: Err(e), .. })) => dump::err_v(e),
            (Some(world::Built { result: Ok(o1), .. }), Some(world::Built { result: Ok(o2), .. })) => {
                let r = crate::catch(std::panic::AssertUnwindSafe(|| {
                    let d1 = dump::dump_onto(o1);
                    let d2 = dump::dump_onto(o2);
                    let c12 = cmp_v(&o1.compare(o2));
                    let c21 = cmp_v(&o2.compare(o1));
                    let c11 = cmp_v(&o1.compare(o1));
                    let rt = match Ontology::from_bytes(&o1.as_bytes()) {
                        Ok(r) => V::L(vec![cmp_v(&o1.compare(&r))]),
                        Err(_) => V::L(vec![]),
                    };
                    V::T(vec![d1, d2, c12, c21, c11, rt])
                }));
                match r {
                    Some(v) => V::C("Ok", vec![v]),
                    None => V::C("Panic", vec![]),
                }
            }
        };
        let input = V::T(vec![w1.to_v(), w2.to_v(), dump::ln_table(f1.n_records().max(f2.n_records()))]);
        out.push(Case { input, obs, tags });
    }
    out
}
