//! Renderer of ontology facts in the JAX text formats (hp.obo, genes_to_phenotype.txt,
//! phenotype_to_genes.txt, phenotype.hpoa) with the noise the real files carry.
use crate::gen::{AnnF, Facts};
use crate::rng::Rng;
use std::collections::BTreeSet;

fn hp(id: u32) -> String {
    format!("HP:{id:07}")
}

fn name_of(f: &Facts, id: u32) -> String {
    f.terms.iter().find(|t| t.id == id).map(|t| t.name.clone()).unwrap_or_else(|| "?".to_string())
}

const EXTRA_TAGS: &[&str] = &[
    "def: \"A definition: with a colon.\" [HPO:probinson]",
    "synonym: \"Other name\" EXACT layperson []",
    "xref: UMLS:C0000000",
    "comment: note: nested: colons",
    "alt_id: HP:9999990",
    "created_by: someone",
    "creation_date: 2012-01-01T00:00:00Z",
    "subset: hposlim_core",
    "property_value: x: y",
    "consider: HP:0000002",
];

pub fn render_obo(rng: &mut Rng, f: &Facts) -> Vec<u8> {
    let mut chunks: Vec<String> = vec![];
    // header
    let mut header = String::from("format-version: 1.2\n");
    if f.version != (0, 0, 0) {
        if rng.chance(1, 3) {
            header.push_str("data-version: something/else\n"); // a data-version line of another shape comes first
        }
        header.push_str(&format!("data-version: hp/releases/{:04}-{:02}-{:02}\n", f.version.0, f.version.1, f.version.2));
    }
    header.push_str("saved-by: Peter Robinson\nsubsetdef: hposlim_core \"Core clinical terminology\"\nontology: hp.owl");
    let mut stanzas: Vec<String> = vec![];
    let mut order: Vec<usize> = (0..f.terms.len()).collect();
    rng.shuffle(&mut order);
    for i in order {
        let t = &f.terms[i];
        let mut lines: Vec<String> = vec![format!("id: {}", hp(t.id)), format!("name: {}", t.name)];
        let mut rest: Vec<String> = vec![];
        for _ in 0..rng.below(4) {
            rest.push((*rng.pick(EXTRA_TAGS)).to_string());
        }
        for (c, p) in &f.links {
            if *c == t.id {
                rest.push(format!("is_a: {} ! {}", hp(*p), name_of(f, *p)));
            }
        }
        if t.obsolete {
            rest.push("is_obsolete: true".to_string());
        } else if rng.chance(1, 10) {
            rest.push("is_obsolete: false".to_string());
        }
        if let Some(r) = t.replacement {
            rest.push(format!("replaced_by: {}", hp(r)));
        }
        rng.shuffle(&mut rest);
        // `id` and `name` anywhere in the stanza
        if rng.chance(1, 4) {
            lines.extend(rest);
            rng.shuffle(&mut lines);
        } else {
            lines.extend(rest);
        }
        stanzas.push(format!("[Term]\n{}", lines.join("\n")));
    }
    // other stanza types, interleaved
    for _ in 0..rng.below(3) {
        let at = rng.below(stanzas.len() as u64 + 1) as usize;
        stanzas.insert(at, "[Typedef]\nid: has_modifier\nname: has modifier\nis_a: HP:0000001 ! not a term".to_string());
    }
    if rng.chance(1, 4) {
        let at = rng.below(stanzas.len() as u64 + 1) as usize;
        stanzas.insert(at, "[Instance]\nid: HP:0000001\nname: an instance: not a term".to_string());
    }
    chunks.push(header);
    chunks.extend(stanzas);
    let mut s = chunks.join("\n\n");
    if rng.chance(2, 3) {
        s.push('\n');
    }
    s.into_bytes()
}

fn rows_shuffled(rng: &mut Rng, mut rows: Vec<String>) -> Vec<String> {
    rng.shuffle(&mut rows);
    rows
}

/// one time in forty: a first line longer than a reader's buffer (8 KiB, sometimes 64 KiB) whose text from the
/// buffer boundary on looks like a data row — the whole line is the header, whatever its length
fn long_header(rng: &mut Rng, f: &Facts, transitive: bool) -> Option<String> {
    if !rng.chance(1, 40) || f.terms.is_empty() {
        return None;
    }
    let boundary = if rng.chance(1, 8) { 65_536 } else { 8_192 };
    let mut h = String::from("#Format: ");
    while h.len() < boundary {
        h.push(if h.len() % 97 == 0 { ' ' } else { 'x' });
    }
    let t = rng.pick(&f.terms).id;
    if transitive {
        h.push_str(&format!("{}\tphantom\t7360\tSRC360", hp(t)));
    } else {
        h.push_str(&format!("7360\tSRC360\t{}", hp(t)));
    }
    Some(h)
}

pub fn render_genes_to_phenotype(rng: &mut Rng, f: &Facts) -> Vec<u8> {
    let header = match rng.below(3) {
        0 => "ncbi_gene_id\tgene_symbol\thpo_id\thpo_name\tfrequency\tdisease_id",
        1 => "#Format: entrez-gene-id<tab>entrez-gene-symbol<tab>HPO-Term-ID",
        _ => "ncbi_gene_id\tgene_symbol\thpo_id",
    };
    let long = long_header(rng, f, false);
    let header: &str = long.as_deref().unwrap_or(header);
    let mut rows = vec![];
    for g in &f.genes {
        for t in &g.terms {
            rows.push(match rng.below(3) {
                0 => format!("{}\t{}\t{}", g.id, g.name, hp(*t)),
                1 => format!("{}\t{}\t{}\t{}\t-\tOMIM:{}", g.id, g.name, hp(*t), name_of(f, *t), rng.range(100_000, 999_999)),
                _ => format!("{}\t{}\t{}\t{}\t3/7\tORPHA:{}\textra\tcolumns", g.id, g.name, hp(*t), name_of(f, *t), rng.range(1, 9999)),
            });
        }
    }
    let mut all = vec![header.to_string()];
    all.extend(rows_shuffled(rng, rows));
    let mut s = all.join("\n");
    // the gene files have no blank lines; the last line may or may not be terminated
    if rng.chance(2, 3) || all.len() == 1 {
        s.push('\n');
    }
    s.into_bytes()
}

pub fn render_phenotype_to_genes(rng: &mut Rng, f: &Facts) -> Vec<u8> {
    let header = match rng.below(2) {
        0 => "hpo_id\thpo_name\tncbi_gene_id\tgene_symbol\tdisease_id",
        _ => "#Format: HPO-id<tab>HPO label<tab>entrez-gene-id<tab>entrez-gene-symbol",
    };
    let long = long_header(rng, f, true);
    let header: &str = long.as_deref().unwrap_or(header);
    let mut rows = vec![];
    for g in &f.genes {
        for t in &g.terms {
            rows.push(match rng.below(2) {
                0 => format!("{}\t{}\t{}\t{}", hp(*t), name_of(f, *t), g.id, g.name),
                _ => format!("{}\t{}\t{}\t{}\tOMIM:{}\tmore", hp(*t), name_of(f, *t), g.id, g.name, rng.range(100_000, 999_999)),
            });
        }
    }
    let mut all = vec![header.to_string()];
    all.extend(rows_shuffled(rng, rows));
    let mut s = all.join("\n");
    // the gene files have no blank lines; the last line may or may not be terminated
    if rng.chance(2, 3) || all.len() == 1 {
        s.push('\n');
    }
    s.into_bytes()
}

fn disease_rows(rng: &mut Rng, f: &Facts, db: &str, recs: &[AnnF], ids: &[u32], rows: &mut Vec<String>) {
    for d in recs {
        for t in &d.terms {
            let tail = match rng.below(3) {
                0 => String::new(),
                1 => format!("\t{}:{}\tTAS\t\t\t\tP\tHPO:probinson[2009-02-17]", db, d.id),
                _ => "\tPMID:1\tPCS\t\t1/2\t\tP\tHPO:x".to_string(),
            };
            rows.push(format!("{}:{}\t{}\t\t{}{}", db, d.id, d.name, hp(*t), tail));
        }
        // a NOT row next to a positive row for the same disease and term (two curators disagree): the
        // positive row still links; rows are shuffled, so the NOT row comes first half of the time
        if rng.chance(1, 3) && !d.terms.is_empty() {
            let t = *rng.pick(&d.terms);
            rows.push(format!("{}:{}\t{}\tNOT\t{}\tPMID:2\tPCS", db, d.id, d.name, hp(t)));
        }
        // NOT rows: for a term the disease is not annotated to (must not create a link)
        if rng.chance(1, 2) {
            let t = *rng.pick(ids);
            if !d.terms.contains(&t) {
                rows.push(format!("{}:{}\t{}\tNOT\t{}\t{}:{}\tTAS", db, d.id, d.name, hp(t), db, d.id));
            }
        }
    }
}

pub fn render_hpoa(rng: &mut Rng, f: &Facts) -> Vec<u8> {
    let ids = f.ids();
    let mut rows: Vec<String> = vec![];
    disease_rows(rng, f, "OMIM", &f.omim, &ids, &mut rows);
    disease_rows(rng, f, "ORPHA", &f.orpha, &ids, &mut rows);
    // a disease that only has NOT rows: no record at all
    let used_omim: BTreeSet<u32> = f.omim.iter().map(|d| d.id).collect();
    let used_orpha: BTreeSet<u32> = f.orpha.iter().map(|d| d.id).collect();
    if rng.chance(1, 2) {
        let id = (1..).find(|x| !used_omim.contains(x)).unwrap();
        rows.push(format!("OMIM:{}\tonly excluded\tNOT\t{}\tOMIM:{}\tTAS", id, hp(*rng.pick(&ids)), id));
    }
    if rng.chance(1, 2) {
        let id = (1..).find(|x| !used_orpha.contains(x)).unwrap();
        rows.push(format!("ORPHA:{}\tonly excluded\tNOT\t{}", id, hp(*rng.pick(&ids))));
    }
    // other databases
    for _ in 0..rng.below(3) {
        rows.push(format!("DECIPHER:{}\tSome syndrome\t\t{}\tDECIPHER:1\tIEA", rng.range(1, 99), hp(*rng.pick(&ids))));
    }
    let mut rows = rows_shuffled(rng, rows);
    if rng.chance(1, 3) {
        // grouped by numeric id and term: OMIM:n and ORPHA:n rows of the same term become neighbours
        let key = |r: &String| -> (u32, String) {
            let cols: Vec<&str> = r.split('\t').collect();
            let num = cols[0].split(':').nth(1).and_then(|x| x.parse::<u32>().ok()).unwrap_or(0);
            (num, cols.get(3).unwrap_or(&"").to_string())
        };
        rows.sort_by_key(key);
    }
    // comment lines anywhere
    for _ in 0..rng.below(3) {
        let at = rng.below(rows.len() as u64 + 1) as usize;
        rows.insert(at, "# a comment: OMIM ORPHA HP:0000001".to_string());
    }
    // the preamble: the current layout (comment block, then the column header), the legacy layout (the column
    // header is itself a comment: the first line that is no comment is already a row), no preamble at all, or
    // the column header before the comment block
    let comments = vec!["#description: \"HPO annotations for rare diseases\"".to_string(), "#version: 2024-01-01".to_string()];
    let header = "database_id\tdisease_name\tqualifier\thpo_id\treference\tevidence\tonset\tfrequency\tsex\tmodifier\taspect\tbiocuration".to_string();
    let mut head: Vec<String> = match rng.below(6) {
        0 => {
            let mut h = comments.clone();
            h.push("#DatabaseID\tDiseaseName\tQualifier\tHPO_ID\tReference\tEvidence\tOnset\tFrequency\tSex\tModifier\tAspect\tBiocuration".to_string());
            h
        }
        1 => vec![],
        2 => {
            let mut h = vec![header.clone()];
            h.extend(comments.clone());
            h
        }
        _ => {
            let mut h = comments.clone();
            h.push(header.clone());
            h
        }
    };
    head.extend(rows);
    let mut s = head.join("\n");
    if rng.chance(2, 3) {
        s.push('\n');
    }
    s.into_bytes()
}
