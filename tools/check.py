#!/usr/bin/env python3
"""./check <property> [--tier quick|thorough] [--replay <file>]

Decides one property of /repo:
  proof gate          the property's theorems (coq/theories/Properties/<id>.v) compile, every axiom
                      reported by Print Assumptions is on the allow-list, no Admitted/Axiom/... anywhere
  correspondence gate the harness (real crate, rebuilt from /repo's working tree) and the Coq model
                      (vm_compute inside coqc) agree on every generated case
  spec evaluation     the property's executable statement spec_<id> (a Coq function) is evaluated by
                      Coq on the *implementation's* observation of every case
Exit 0 = held on everything explored; exit 1 + `VIOLATION property=<id> replay=<path>` otherwise.
"""
import sys, os, re, json, time, subprocess, hashlib, fcntl, shutil
from concurrent.futures import ThreadPoolExecutor

ROOT = os.path.dirname(os.path.dirname(os.path.abspath(__file__)))
sys.path.insert(0, os.path.join(ROOT, "tools"))
import coqterm
from props import PROPS, AXIOM_ALLOW, COMMON_TRUST

COQ = os.path.join(ROOT, "coq")
BUILD = os.path.join(ROOT, "build")
HARNESS = os.path.join(ROOT, "harness")
NSHARDS = 16


def log(*a):
    print(*a, file=sys.stderr, flush=True)


class Lock:
    def __init__(self, name):
        os.makedirs(BUILD, exist_ok=True)
        self.path = os.path.join(BUILD, name + ".lock")

    def __enter__(self):
        self.f = open(self.path, "w")
        fcntl.flock(self.f, fcntl.LOCK_EX)

    def __exit__(self, *a):
        fcntl.flock(self.f, fcntl.LOCK_UN)
        self.f.close()


def _big_stack():
    # coqc parses case files with list literals of 10^5 elements (C10 many-terms case): lift the stack limit
    import resource
    try:
        resource.setrlimit(resource.RLIMIT_STACK, (resource.RLIM_INFINITY, resource.RLIM_INFINITY))
    except (ValueError, OSError):
        pass


def run(cmd, timeout=None, cwd=None, env=None):
    p = subprocess.run(cmd, cwd=cwd, env=env, timeout=timeout, stdout=subprocess.PIPE, stderr=subprocess.STDOUT, text=True,
                       preexec_fn=_big_stack)
    return p.returncode, p.stdout


# --------------------------------------------------------------------------------------------
# proof gate
# --------------------------------------------------------------------------------------------

FORBIDDEN = re.compile(
    r"\b(Admitted|admit|Axiom|Axioms|Parameter|Parameters|Conjecture|Conjectures|Admit\s+Obligations|"
    r"Unset\s+Guard\s+Checking|Unset\s+Positivity\s+Checking|Unset\s+Universe\s+Checking|bypass_check|"
    r"type-in-type|impredicative-set|give_up|native_compute)\b"
)


def strip_comments(src):
    out = []
    depth = 0
    i = 0
    n = len(src)
    while i < n:
        if src.startswith("(*", i):
            depth += 1
            i += 2
        elif src.startswith("*)", i) and depth > 0:
            depth -= 1
            i += 2
        else:
            if depth == 0:
                out.append(src[i])
            elif src[i] == "\n":
                out.append("\n")
            i += 1
    return "".join(out)


def hygiene_scan():
    """no Admitted / Axiom / Parameter / ... in the development; Variable/Hypothesis only inside sections"""
    bad = []
    for dp, _, fs in os.walk(os.path.join(COQ, "theories")):
        for f in fs:
            if not f.endswith(".v"):
                continue
            p = os.path.join(dp, f)
            src = strip_comments(open(p).read())
            depth = 0
            for ln, line in enumerate(src.split("\n"), 1):
                m = FORBIDDEN.search(line)
                if m:
                    bad.append(f"{p}:{ln}: {m.group(0)}")
                if re.match(r"\s*(Section|Module\s+Type)\b", line):
                    depth += 1
                elif re.match(r"\s*End\b", line) and depth > 0:
                    depth -= 1
                elif depth == 0 and re.match(r"\s*(Variable|Variables|Hypothesis|Hypotheses|Context)\b", line):
                    bad.append(f"{p}:{ln}: {line.strip()} outside a section")
    return bad


def consts_status():
    """which constants of Gen/Consts.v were read from the current source, and which fell back to the pinned value"""
    try:
        return json.load(open(os.path.join(ROOT, "build", "consts_status.json")))
    except (OSError, ValueError):
        return {"from_source": [], "pinned_fallback": [{"constant": "*", "reason": "no status file"}]}


def make_targets(targets, timeout=3000):
    with Lock("coq"):
        rc, out = run([sys.executable, os.path.join(ROOT, "tools", "extract_consts.py")], cwd=ROOT)
        consts_err = None
        if rc != 0:
            # the source no longer has the shape the extractor knows: a broken obligation; keep the
            # previous Gen/Consts.v (if any) so that the search for a failing input can still run
            consts_err = "extract_consts failed (constants could not be regenerated from the source):\n" + out
            if not os.path.exists(os.path.join(COQ, "theories", "Gen", "Consts.v")):
                return False, consts_err
        if not os.path.exists(os.path.join(COQ, "Makefile")):
            rc, out = run(["coq_makefile", "-f", "_CoqProject", "-o", "Makefile"], cwd=COQ)
            if rc != 0:
                return False, out
        rc, out = run(["timeout", str(timeout), "make", "-j16"] + targets, cwd=COQ)
        if rc == 0 and consts_err:
            return False, consts_err
        return rc == 0, out


def proof_gate(pid, cfg):
    """returns (ok, info dict)"""
    info = {"theorems": [], "axioms": [], "errors": []}
    prop_v = f"theories/Properties/{pid}.v"
    targets = [f"theories/Properties/{pid}.vo"] + [f"theories/Run/{m}.vo" for m in cfg.get("run_modules", [pid])]
    ok, out = make_targets(targets)
    if not ok:
        if out.startswith("extract_consts failed (constants"):
            info["errors"].append(out[-3000:])
            return False, info
        info["errors"].append("coq build failed: " + out[-3000:])
        return False, info
    bad = hygiene_scan()
    if bad:
        info["errors"].append("forbidden constructs: " + "; ".join(bad[:10]))
        return False, info
    # re-compile the property file alone (to a scratch .vo) to capture Print Assumptions / Check output
    scratch = os.path.join(BUILD, "props")
    os.makedirs(scratch, exist_ok=True)
    rc, out = run(["timeout", "900", "coqc", "-q", "-Q", "theories", "HpoV", "-w", "-notation-overridden", "-o", os.path.join(scratch, pid + ".vo"), prop_v], cwd=COQ)
    if rc != 0:
        info["errors"].append("property file does not compile: " + out[-3000:])
        return False, info
    src = strip_comments(open(os.path.join(COQ, prop_v)).read())
    thms = re.findall(r"^\s*(?:Theorem|Corollary)\s+([A-Za-z_0-9']+)", src, re.M)
    pas = re.findall(r"^\s*Print\s+Assumptions\s+([A-Za-z_0-9']+)", src, re.M)
    info["theorems"] = thms
    missing = [t for t in thms if t not in pas]
    if missing:
        info["errors"].append("theorems without Print Assumptions: " + ", ".join(missing))
    # every proof in a property file is a single `exact`
    for m in re.finditer(r"(?:Theorem|Corollary)\s+([A-Za-z_0-9']+).*?Proof\.(.*?)Qed\.", src, re.S):
        body = m.group(2).strip()
        if not re.fullmatch(r"exact\s+[^.]*(?:\.[A-Za-z_(][^.]*)*\.", body):
            info["errors"].append(f"theorem {m.group(1)}: property files contain only `exact <lemma>.` proofs")
    axioms = set()
    in_block = False
    for line in out.split("\n"):
        if line.startswith("Axioms:"):
            in_block = True
            continue
        if line.startswith("Closed under the global context"):
            in_block = False
            continue
        if in_block and line and not line[0].isspace():
            m = re.match(r"^([A-Za-z_][A-Za-z_0-9'.]*)", line)
            if m:
                axioms.add(m.group(1))
            else:
                in_block = False
    info["axioms"] = sorted(axioms)
    notallowed = [a for a in axioms if a not in AXIOM_ALLOW]
    if notallowed:
        info["errors"].append("axioms not on the allow-list: " + ", ".join(notallowed))
    if not thms:
        info["errors"].append("no theorem in property file")
    return (not info["errors"]), info


# --------------------------------------------------------------------------------------------
# harness
# --------------------------------------------------------------------------------------------

def build_harness():
    with Lock("cargo"):
        env = dict(os.environ, CARGO_NET_OFFLINE="true", RUSTFLAGS=os.environ.get("RUSTFLAGS", "") + " --cfg hpo_verif -Awarnings")
        rc, out = run(["timeout", "1500", "cargo", "build", "--release", "--offline", "-q"], cwd=HARNESS, env=env)
        if rc != 0:
            return False, out
        # private copy so that a concurrent rebuild cannot swap the binary under a running check
        return True, os.path.join(HARNESS, "target", "release", "harness")


def run_harness(binary, name, seed, count, tier):
    rc, out = run(["timeout", "1800", binary, name, str(seed), str(count), tier])
    if rc != 0:
        raise RuntimeError(f"harness {name} failed rc={rc}: {out[-2000:]}")
    cases = []
    for line in out.split("\n"):
        if not line.strip():
            continue
        parts = line.split("\t")
        if len(parts) < 2:
            raise RuntimeError("bad harness line: " + line[:200])
        cases.append({"input": parts[0], "obs": parts[1], "tags": [t for t in (parts[2] if len(parts) > 2 else "").split(",") if t]})
    return cases


# --------------------------------------------------------------------------------------------
# model evaluation
# --------------------------------------------------------------------------------------------

def eval_model(pid, sub, cases, workdir):
    """evaluates (run i, spec i obs) for every case inside coqc, sharded; returns list of (model_obs_str, spec_bool)"""
    os.makedirs(workdir, exist_ok=True)
    n = len(cases)
    shards = [[] for _ in range(min(NSHARDS, max(1, n)))]
    # round-robin by cost (input length) so that shards are balanced
    order = sorted(range(n), key=lambda i: -len(cases[i]["input"]))
    for k, i in enumerate(order):
        shards[k % len(shards)].append(i)
    header = "".join(f"From HpoV Require Import {m}.\n" for m in ["Model.Base"] + sub["imports"])
    header += "Set Printing Width 2000000000.\nSet Printing Depth 100000000.\nOpen Scope N_scope.\n"
    files = []
    for k, idxs in enumerate(shards):
        idxs.sort()
        path = os.path.join(workdir, f"cases_{pid}_{sub['name']}_{k}.v")
        with open(path, "w") as f:
            f.write(header)
            for i in idxs:
                c = cases[i]
                if sub.get("self_spec", True):
                    # also: the executable statement holds of the model's own observation (model / spec coherence)
                    f.write(f"Eval vm_compute in (let i := {c['input']} in let m := {sub['run']} i in (Some m, {sub['spec']} i ({c['obs']}), {sub['spec']} i m)).\n")
                else:
                    f.write(f"Eval vm_compute in (let i := {c['input']} in (Some ({sub['run']} i), {sub['spec']} i ({c['obs']}), true)).\n")
        files.append((path, idxs))

    def one(job):
        path, idxs = job
        rc, out = run(["timeout", "3000", "coqc", "-q", "-noglob", "-Q", os.path.join(COQ, "theories"), "HpoV", "-w", "-notation-overridden", "-o", path + "o", path], cwd=workdir)
        vals = [l[len("     = "):] for l in out.split("\n") if l.startswith("     = ")]
        if rc != 0 or len(vals) != len(idxs):
            raise RuntimeError(f"coqc failed on {path} (rc={rc}, {len(vals)}/{len(idxs)} results): {out[-1500:]}")
        return list(zip(idxs, vals))

    results = [None] * n
    with ThreadPoolExecutor(max_workers=NSHARDS) as ex:
        for part in ex.map(one, files):
            for i, v in part:
                results[i] = v
    return results


# --------------------------------------------------------------------------------------------
# main
# --------------------------------------------------------------------------------------------

def load_known(pid):
    path = os.path.join(ROOT, "known_findings.txt")
    out = []
    if os.path.exists(path):
        for line in open(path):
            line = line.strip()
            m = re.match(r"finding:\s+property=(\S+)\s+sha=(\S+)\s+(.*)", line)
            if m and m.group(1) == pid:
                out.append((m.group(2), m.group(3)))
    return out


def sha(s):
    return hashlib.sha256(s.encode()).hexdigest()[:16]


def main():
    args = sys.argv[1:]
    if not args:
        print(__doc__)
        return 2
    pid = args[0]
    tier = os.environ.get("VERIF_TIER", "quick")
    replay = None
    i = 1
    while i < len(args):
        if args[i] == "--tier":
            tier = args[i + 1]
            i += 2
        elif args[i] == "--replay":
            replay = args[i + 1]
            i += 2
        else:
            i += 1
    if pid not in PROPS:
        print(f"unknown property {pid}")
        return 2
    cfg = PROPS[pid]
    seed = int(os.environ.get("VERIF_SEED", "1"))
    only_index = None
    if replay:
        rp = json.load(open(replay))
        seed, tier = rp.get("seed", seed), rp.get("tier", tier)
        only_index = rp.get("case_index")
    t0 = time.time()
    os.makedirs(os.path.join(ROOT, "evidence"), exist_ok=True)
    os.makedirs(os.path.join(ROOT, "replays"), exist_ok=True)
    violations = []  # (kind, text, replay dict)
    known_lines = []

    # 1. proof gate
    ok_proof, pinfo = proof_gate(pid, cfg)
    log(f"[{pid}] proof gate: {'ok' if ok_proof else 'BROKEN'}; theorems={len(pinfo['theorems'])} axioms={pinfo['axioms']}")
    for e in pinfo["errors"]:
        log("   ", e[:2000])

    # 2. harness
    okb, binary = build_harness()
    if not okb:
        log("harness build failed:\n" + binary[-4000:])
        # the working tree no longer builds against the harness: the correspondence cannot be established
        violations.append(("build", "harness does not build against /repo's working tree", {"error": binary[-4000:]}))
        binary = None

    coverage_subs = []
    total_cases = 0
    nontrivial = set()
    samples = []
    tag_hist = {}
    disagreements = 0
    spec_failures = []
    corr_failures = []
    model_spec_failures = 0
    known = load_known(pid)

    if binary and not (pinfo["errors"] and any("coq build failed" in e for e in pinfo["errors"])):
        workdir = os.path.join(BUILD, "cases", f"{pid}-{os.getpid()}")
        for sub in cfg["subs"]:
            count = sub["count"][tier]
            try:
                cases = run_harness(binary, sub["name"], seed, count, tier)
            except Exception as e:
                violations.append(("harness", f"harness run failed for {sub['name']}: {e}", {"error": str(e)}))
                continue
            if only_index is not None and rp.get("sub") == sub["name"]:
                cases = [cases[only_index]] if only_index < len(cases) else []
            elif only_index is not None:
                continue
            try:
                results = eval_model(pid, sub, cases, workdir)
            except Exception as e:
                violations.append(("model", f"model evaluation failed for {sub['name']}: {e}", {"error": str(e)[-3000:]}))
                continue
            cmp_fn = sub.get("compare")
            for idx, (c, r) in enumerate(zip(cases, results)):
                total_cases += 1
                for t in c["tags"]:
                    tag_hist[t] = tag_hist.get(t, 0) + 1
                if "nt" in c["tags"]:
                    nontrivial.add(sha(sub["name"] + c["input"]))
                try:
                    parsed = coqterm.norm(coqterm.parse(r))
                    model_obs, spec_ok = parsed[1][1], parsed[2]
                    if parsed[3] != 1:
                        model_spec_failures += 1
                    impl_obs = coqterm.norm(coqterm.parse(c["obs"]))
                except Exception as e:
                    violations.append(("parse", f"cannot parse result of case {idx}: {e}", {"raw": r[:2000]}))
                    break
                proj = sub.get("proj")
                if cmp_fn:
                    d = cmp_fn(impl_obs, model_obs)
                elif proj:
                    d = coqterm.first_diff(proj(impl_obs), proj(model_obs))
                else:
                    d = coqterm.first_diff(impl_obs, model_obs)
                rec = {"property": pid, "sub": sub["name"], "seed": seed, "tier": tier, "case_index": idx, "input": c["input"], "impl_obs": c["obs"], "model_obs": r, "tags": c["tags"]}
                if spec_ok != 1:
                    spec_failures.append(dict(rec, kind="spec", detail=f"{sub['spec']} is false on the implementation's observation" + (f"; first difference to the model: {d}" if d else "")))
                elif d:
                    disagreements += 1
                    corr_failures.append(dict(rec, kind="correspondence", detail=f"model and implementation differ at {d}; {sub['spec']} still true"))
                if len(samples) < 3 and "nt" in c["tags"]:
                    samples.append({"sub": sub["name"], "input": c["input"][:600], "impl_obs": c["obs"][:600]})
            coverage_subs.append({"sub": sub["name"], "cases": len(cases)})
        shutil.rmtree(workdir, ignore_errors=True)

    # 3. decide
    out_lines = []
    nviol = 0

    def write_replay(rec, tag):
        path = os.path.join(ROOT, "replays", f"{pid}-{tag}-{seed}.json")
        json.dump(rec, open(path, "w"), indent=1)
        return path

    if spec_failures:
        spec_failures.sort(key=lambda r: len(r["input"]))
        seen_known = set()
        fresh = []
        for r in spec_failures:
            h = sha(r["sub"] + r["input"])
            hit = [k for k in known if k[0] == h]
            if hit:
                if h not in seen_known:
                    known_lines.append(f"KNOWN-FINDING: property={pid} {hit[0][1]}")
                    seen_known.add(h)
            else:
                fresh.append(r)
        if fresh:
            r = fresh[0]
            r["other_failing_cases"] = len(fresh) - 1
            path = write_replay(r, "spec")
            out_lines.append(f"VIOLATION property={pid} replay={path}")
            nviol += len(fresh)
    if model_spec_failures and not spec_failures:
        violations.append(("model_spec", f"the executable statement is false on the MODEL's own observation in {model_spec_failures} case(s): model and statement are incoherent", {}))
    if not out_lines and (corr_failures or not ok_proof or violations):
        rec = {"property": pid, "seed": seed, "tier": tier, "broken": []}
        if not ok_proof:
            rec["broken"].append({"proof_gate": pinfo["errors"]})
        for k, text, extra in violations:
            rec["broken"].append({k: text, **extra})
        if corr_failures:
            corr_failures.sort(key=lambda r: len(r["input"]))
            rec["broken"].append({"correspondence": f"{len(corr_failures)} case(s) where model ({cfg['subs'][0]['run']}) and implementation disagree while the executable statement still holds", "first": corr_failures[0]})
            rec.update({k: corr_failures[0][k] for k in ("sub", "case_index")})
        path = write_replay(rec, "broken")
        out_lines.append(f"VIOLATION property={pid} replay={path} no-failing-input-found")
        nviol += 1

    wall = time.time() - t0
    ev = {
        "property_id": pid,
        "tier": tier,
        "seed": seed,
        "level": "proof",
        "coverage": {
            "obligations": len(pinfo["theorems"]),
            "discharged": len(pinfo["theorems"]) if ok_proof else 0,
            "checker_cmd": f"make -C coq theories/Properties/{pid}.vo && coqc theories/Properties/{pid}.v (Print Assumptions checked against allow-list; hygiene scan)",
            "trusted_base": COMMON_TRUST + cfg.get("trust", []),
            "theorems": pinfo["theorems"],
            "axioms_reported": pinfo["axioms"],
            "evaluations": total_cases,
            "distinct_nontrivial": len(nontrivial),
            "rule": cfg["rule"],
            "samples": samples if samples else [{"note": "no non-trivial sample captured"}],
            "subchecks": coverage_subs,
            "tag_histogram": tag_hist,
            "disagreements_checked": disagreements + len(spec_failures),
            "spec_failures_on_impl": len(spec_failures),
            "spec_failures_on_model": model_spec_failures,
            "exhaustive": False,
            "constants": consts_status(),
        },
        "assumptions": cfg.get("assumptions", []),
        "wall_s": round(wall, 2),
        "violations": nviol,
    }
    json.dump(ev, open(os.path.join(ROOT, "evidence", pid + ".json"), "w"), indent=1)
    for l in known_lines:
        print(l)
    for l in out_lines:
        print(l)
    log(f"[{pid}] tier={tier} seed={seed} cases={total_cases} nontrivial={len(nontrivial)} spec_fail={len(spec_failures)} corr_diff={len(corr_failures)} wall={wall:.1f}s -> {'VIOLATION' if out_lines else 'ok'}")
    return 1 if out_lines else 0


if __name__ == "__main__":
    sys.exit(main())
