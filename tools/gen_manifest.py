#!/usr/bin/env python3
"""Writes MANIFEST.json from tools/props.py + tools/manifest_texts.py (kept in sync by construction)."""
import json, os, sys
ROOT = os.path.dirname(os.path.dirname(os.path.abspath(__file__)))
sys.path.insert(0, os.path.join(ROOT, "tools"))
from props import PROPS
from manifest_texts import TEXTS, NOT_APPLICABLE, ENGINES, NOTES

BASE_OFF = ("cd /repo && (cargo nextest run --workspace --no-fail-fast --test-threads 8 --offline "
            "|| cargo test --workspace --no-fail-fast --offline)")

m = {
    "version": 1,
    "setup_cmd": "./setup.sh",
    "hooks": {
        "guard": "hpo_verif",
        "enable": "RUSTFLAGS=\"--cfg hpo_verif\" (passed by tools/check.py when it builds the harness against /repo); no hook is needed: every observation is reachable through the public API, so no source commit carries the guard",
        "baseline_off_cmd": BASE_OFF,
        "source_commits": [],
        "add_only": True,
    },
    "engines": ENGINES,
    "checks": [],
    "notes": NOTES,
    "not_applicable": NOT_APPLICABLE,
}
for pid in sorted(PROPS):
    t = TEXTS[pid]
    m["checks"].append({
        "property_id": pid,
        "quick_cmd": f"./check {pid} --tier quick",
        "thorough_cmd": f"./check {pid} --tier thorough",
        "evidence_file": f"/verif/evidence/{pid}.json",
        "replay_cmd_template": f"./check {pid} --replay {{path}}",
        "engine": "coq-model+correspondence",
        "level_claimed": {"category": "proof", "text": t["text"], "design_ref": t["design_ref"]},
        "level_note": t["note"],
        "technique": t["technique"],
    })
json.dump(m, open(os.path.join(ROOT, "MANIFEST.json"), "w"), indent=1)
print("MANIFEST.json:", len(m["checks"]), "checks,", len(m["not_applicable"]), "not applicable")
