#!/usr/bin/env python3
"""Regenerates the table of seeded changes in DESIGN.md (between the SEED-TABLE markers) from
seeded/*/meta.json, which tools/seedall.py writes from actual check runs."""
import json, os, re, sys

ROOT = os.path.dirname(os.path.dirname(os.path.abspath(__file__)))


def main():
    rows = []
    for d in sorted(os.listdir(os.path.join(ROOT, "seeded"))):
        mp = os.path.join(ROOT, "seeded", d, "meta.json")
        if not os.path.exists(mp):
            rows.append((d, "(not yet run)", "-", "-"))
            continue
        m = json.load(open(mp))
        what = re.sub(r"\s+", " ", m.get("breaks", "")).replace("|", "/")
        if len(what) > 230:
            what = what[:227] + "..."
        caught = ", ".join(m.get("caught_by", [])) or "**missed**"
        kinds = []
        for c, r in m.get("checks", {}).items():
            s = r.get("summary", "")
            mm = re.search(r"spec_fail=(\d+) corr_diff=(\d+)", s)
            if mm:
                kinds.append(f"spec {mm.group(1)} / diff {mm.group(2)}")
            elif r.get("violation_line"):
                kinds.append("proof or build gate")
        rows.append((d, what, caught, "; ".join(kinds)))
    lines = ["| id | what the change breaks | caught by (quick tier) | failing cases (statement / model-vs-crate) |",
             "|----|------------------------|------------------------|------|"]
    for r in rows:
        lines.append("| " + " | ".join(r) + " |")
    table = "\n".join(lines)
    p = os.path.join(ROOT, "DESIGN.md")
    s = open(p).read()
    b, e = "<!-- SEED-TABLE-BEGIN -->", "<!-- SEED-TABLE-END -->"
    if b not in s:
        sys.exit("markers missing in DESIGN.md")
    s = s[: s.index(b) + len(b)] + "\n" + table + "\n" + s[s.index(e):]
    open(p, "w").write(s)
    print(f"{len(rows)} seeded changes; missed: {[r[0] for r in rows if 'missed' in r[2]]}")


if __name__ == "__main__":
    main()
