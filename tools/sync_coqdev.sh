#!/bin/sh
# tools/sync_coqdev.sh — copy the proof scratch tree (/tmp/coqdev) into /verif/coq without ever
# overwriting a file that is newer in /verif/coq (that is how Run/C03.v was once reverted to a stale copy).
src=${1:-/tmp/coqdev}
cd "$src" || exit 2
stale=$(find theories -name '*.v' | while read f; do
  if [ -f "/verif/coq/$f" ] && [ "/verif/coq/$f" -nt "$f" ] && ! cmp -s "$f" "/verif/coq/$f"; then echo "$f"; fi; done)
if [ -n "$stale" ]; then echo "NEWER IN /verif/coq (not overwritten; copy them back to $src first):"; echo "$stale"; fi
rsync -au --include='*/' --include='*.v' --exclude='*' "$src/theories/" /verif/coq/theories/
cp "$src/_CoqProject" /verif/coq/_CoqProject
cd /verif/coq && coq_makefile -f _CoqProject -o Makefile >/dev/null
