#!/bin/sh
# tools/confirm_seed.sh <worktree> <k> <property-id>
# Re-confirms a seeded change produced by a sub-agent in its scratch worktree:
#   demo passes on the clean tree, patch applies, test suite passes with it, demo fails with it.
# On success copies patch/demo/meta to /verif/seeded/<id>-<k>/ with a confirmation record.
wt="$1"; k="$2"; id="$3"; nk="${4:-$2}"   # nk: index under /verif/seeded (defaults to k)
export CARGO_NET_OFFLINE=true
cd "$wt" || exit 2
git checkout -q -- src
cp "OUT/demo$k.rs" examples/demo_break.rs
cargo run -q --offline --example demo_break >/dev/null 2>OUT/confirm${k}_clean.log; clean=$?
git apply "OUT/patch$k.diff" || { echo "$id-$k: patch does not apply"; exit 1; }
cargo test -q --offline >OUT/confirm${k}_tests.log 2>&1; tests=$?
cargo run -q --offline --example demo_break >/dev/null 2>OUT/confirm${k}_patched.log; patched=$?
git checkout -q -- src
echo "$id-$k: demo_clean_exit=$clean tests_with_patch_exit=$tests demo_patched_exit=$patched"
if [ "$clean" = 0 ] && [ "$tests" = 0 ] && [ "$patched" != 0 ]; then
  d="/verif/seeded/$id-$nk"; mkdir -p "$d"
  cp "OUT/patch$k.diff" "$d/patch.diff"; cp "OUT/demo$k.rs" "$d/demo.rs"; cp "OUT/meta$k.json" "$d/agent_meta.json"
  printf '{"confirmed_by":"tools/confirm_seed.sh","demo_clean_exit":%s,"tests_with_patch_exit":%s,"demo_patched_exit":%s}\n' "$clean" "$tests" "$patched" > "$d/confirm.json"
  echo "$id-$k: confirmed"
else
  echo "$id-$k: NOT confirmed"
fi
