"""Human-written texts for MANIFEST.json (per property) — see tools/gen_manifest.py."""

TECH = "machine-checked proof in Coq 8.16 about an executable Gallina model; model tied to the code by a vm_compute correspondence run against the real crate"

NOTE_COMMON = ("Trusted: Coq kernel + vm_compute; the hand-written model (tied to /repo only by the correspondence run on generated "
               "inputs); harness/differ/parser; extract_consts.py. Axioms: none beyond those listed per property. ")

TEXTS = {
    "C01": {
        "text": "Theorems about the Gallina transcription of builder.rs (Properties/C01.v, unbounded): whenever connect_all_terms / "
                "create_cache_of_grandparents / all_grandparents return — EVERY fuel, insertion order, id assignment and DAG shape — names, "
                "parents, children and flags are untouched and every term's ancestor cache is exactly clos_trans of the direct-parent "
                "relation (invariant: every cache is empty or exact; the parents_cached heuristic is sound because a term with parents has a "
                "non-empty closure); never the term itself: connect_all_terms RETURNS ONLY ON ACYCLIC GRAPHS "
                "(C01_connect_returns_only_on_acyclic_graphs — on a cycle the real recursion does not terminate, the transcription runs out "
                "of fuel), so irreflexivity needs no assumption on the input; every ontology any Builder script produces has exact caches "
                "(C01_builder_ontologies_exact); Arena::insert and every successful add_parent keep "
                "ids unique, links resolving and children the exact inverse of parents, add_parent adds exactly one link. Plus soundness of the "
                "executable statement closure_ok, which the check evaluates inside Coq on the real crate's observation of every generated "
                "ontology (Builder, binary v1-v3, hp.obo, sub_ontology paths); the transcription is diffed against the crate. EACH CONSTRUCTION PATH (C01_every_constructed_ontology): for every ontology produced by a Builder script, a JAX load (closed hp.obo), from_bytes on a well-formed file, or sub_ontology of any such ontology (nested to any depth) the ancestor caches are exactly the transitive closure, children = parents^-1 and the graph is acyclic. TOTALITY (C01_connect_returns_iff_acyclic, C01_connect_returns_on_ranked_graphs): with the fuel the code path uses, connect_all_terms returns EXACTLY on acyclic graphs (running out of fuel would exhibit a chain of parent links longer than the number of terms, hence a cycle: pigeonhole). RENDERINGS (sub-check C01r; C01_mermaid_text, C01_rendered_edges_are_the_links, C01_graphviz_returns): as_mermaid / as_graphviz draw exactly the parent-child links.",
        "design_ref": "DESIGN.md §4 C01, §9",
        "note": NOTE_COMMON + "Acyclic inputs only (the property's quantifier). Totality of the fuelled recursion on DAGs is not a theorem (a fuel exhaustion would show as a disagreement).",
        "technique": TECH,
    },
    "C02": {
        "text": "Theorems about the Gallina transcription of link_*_term (Properties/C02.v, unbounded): one propagation with the early exit "
                "'already linked => stop' changes nothing but the annotation sets of its kind and adds the annotation to exactly the target "
                "and its cached ancestors — proved for every fuel from two facts only: the ancestor cache is transitive and irreflexive (C01) "
                "and earlier propagations ran to completion (call-stack invariant upclosed_except); any sequence of propagations (any order, "
                "repetitions) leaves a term with an annotation iff it had it before or a direct fact sits at the term or below it. The "
                "hypotheses of these theorems hold of every acyclic ontology with exact caches (C02_propagation_hypotheses_hold; exact caches "
                "are proved of every Builder-built ontology), and loading all records of a kind gives every term exactly the ids with a direct "
                "fact at the term or at a descendant (C02_model_record_phase). THE PROPERTY FOR EVERY BUILDER SCRIPT "
                "(C02_builder_annotations_exact): whatever calls are made in whatever order, failing ones included, every term of the finished "
                "ontology carries, per kind, exactly the ids with a direct annotation at the term or at one of its descendants, and the "
                "is_a graph is acyclic. Record side: annotate_* adds the term to the record's direct "
                "set only. Plus "
                "soundness of the executable statement kind_ok / recs_ok, evaluated on the real crate's observation for the three kinds "
                "separately (records vs supplied facts, id-map probes for kind leakage); the transcription is diffed against the crate. EACH CONSTRUCTION PATH (C02_every_constructed_ontology): the same inherited-annotation statement, distinct record ids and records naming stored terms for every ontology produced by any public constructor (Builder, JAX loaders, from_bytes, sub_ontology, nested). TOTALITY (C02_model_link_returns): the propagation returns with the fuel the code path uses.",
        "design_ref": "DESIGN.md §4 C02, §9", "note": NOTE_COMMON + "Acyclic inputs only.", "technique": TECH,
    },
    "C03": {
        "text": "Theorems (Properties/C03.v): the documented formula over the reals is >= 0 for n <= N, antitone in n, 0 for n=0 or N=0 or n=N; "
                "the f32 implementation's zero guard, u16 conversion guard and its exact shape (one binary32 division, logf, one multiplication); "
                "WHOLE ONTOLOGY (C03_every_term_every_kind): calculate_information_content gives EVERY term, for EACH kind independently, "
                "calculate(records of that kind, the term's annotations of that kind) and changes nothing else; with more than 65 535 records "
                "of a kind that some term carries no ontology is built (C03_refuses_over_u16). The correspondence run reaches that limit "
                "(65 535 accepted, 65 536 refused) with a block of add_* calls that the model appends at once, proved equal to the "
                "call-by-call run for every block and builder state (C03_bulk_block_is_calls, C03_bulk_script). THE PROPERTY FOR EVERY BUILDER "
                "SCRIPT (C03_builder_information_content + C03_builder_counts_are_the_inherited_sets): every term of the finished ontology has, "
                "per kind, calculate(N, n) with N the number of records of the kind and n the size of the term's annotation set, which is "
                "exactly the set of ids with a direct annotation at the term or at a descendant. "
                "The float evaluation is executed bit-exactly (Flocq) against the crate with the runtime's logf as an oracle table: the float "
                "layer is partial (no theorem about logf). EACH CONSTRUCTION PATH (C03_every_constructed_ontology): IC = calculate(N, n) for every term and kind of every ontology produced by any public constructor.",
        "design_ref": "DESIGN.md §4 C03, §2.6",
        "note": NOTE_COMMON + "Axioms: the four standard-library axioms behind Coq Reals (sig_not_dec, sig_forall_dec, functional_extensionality_dep, classic). Flocq binary32 = Rust f32 arithmetic; logf sampled.",
        "technique": TECH,
    },
    "C15": {
        "text": "Theorems (Properties/C15.v): about the Gallina transcription of the Builder — for EVERY history of add_parent calls and every "
                "history of add_* / annotate_* calls, the builder ends in exactly the state the successful calls alone produce (and those all "
                "succeed again); every successful add_parent keeps ids unique, links resolving and children = parents^-1; and soundness of "
                "the executable statement ref_closed (no dangling id in any accessor of an accepted observation). NO DANGLING IDS FOR EVERY BUILDER "
                "SCRIPT (C15_builder_ontologies_walk_returns): whatever calls are made and whichever fail, the complete walk through the read "
                "API of the finished ontology (every resolving iterator of every term and record, each of which panics on an id that does not "
                "resolve) returns. The check runs every "
                "generated call history twice on the real Builder (with and without its failing calls), demands identical read-API dumps, "
                "exact error codes (fails iff an absent term is named), a panic-free complete read-API walk, and agreement with the model. NO DANGLING IDS ON EVERY CONSTRUCTION PATH: C15_wellformed_ontologies_walk_returns (any ontology with exact caches, children = parents^-1, inherited annotation sets and records naming stored terms), hence C15_jax_ontologies_walk_returns, C15_sub_ontologies_walk_returns, C15_binary_ontologies_walk_returns. C15_every_constructed_ontology_walk_returns: the same for the inductive closure of all public constructors. C15_annotate_on_stored_term_succeeds / C15_annotate_on_absent_term_is_rejected: annotate_* is rejected only for an absent term (Err(DoesNotExist)); on a stored term it returns Ok. C15_builder_scripts_run_to_the_end: a script with ids inside the id space whose successful add_parent calls describe an acyclic graph always runs to the end (rejected calls are Errs; nothing panics or runs out of fuel), whatever the order of the calls. BINARY FILES (C15_decoded_records_name_stored_terms, EVERY byte string): an ontology from_bytes returns lists only stored terms in its gene / disease records, and (C15_decoded_terms_carry_recorded_ids) every gene / disease id one of its terms carries has a record; an eighth of the C15 cases are binary files, most with a record naming a term the file lacks (statement: whatever is returned is referentially closed and can be walked).",
        "design_ref": "DESIGN.md §4 C15, §9", "note": NOTE_COMMON, "technique": TECH,
    },
    "C16": {
        "text": "Theorems (Properties/C16.v): about the transcription — ancestor sets depend only on the parent RELATION (two arenas with the "
                "same links, whatever the supply order and fuel, get the same ancestor sets), inherited annotations depend on the fact list "
                "through membership only; THE PROPERTY FOR ANY TWO BUILDER SCRIPTS (C16_builder_scripts_order_independent): whatever calls in whatever "
                "order, failing ones included — if the finished ontologies agree on the direct facts (is_a links, record ids per kind, direct "
                "terms of every record) then every term has in both the same parents, children, ancestor cache, three annotation sets and "
                "information content; and observations accepted by spec_C16 are pairwise identical. The check builds every fact set in "
                "three independent random orders (incl. leaf-first / root-first supplies of 36-90-term chains) with the real Builder and with "
                "the model and demands identical canonical dumps. ACROSS CONSTRUCTION PATHS (C16_constructed_ontologies_with_same_facts_agree): any two ontologies produced by public constructors (Builder, JAX loaders, from_bytes, sub_ontology, nested) that state the same direct facts agree term by term on all derived data. TEXT AND BINARY FILES: C16_text_files_any_order (stanzas of hp.obo and rows of both annotation files permuted: the two loaded ontologies agree on all derived data), C16_text_files_order_irrelevant, C16_binary_record_order_irrelevant.",
        "design_ref": "DESIGN.md §4 C16, §9", "note": NOTE_COMMON, "technique": TECH,
    },
    "C19": {
        "text": "Theorems (Properties/C19.v, about the Gallina transcription): default modifier = children(HP:1) minus HP:118, default "
                "categories = those plus children(HP:118), is_modifier / categories characterised by membership in {self} + ancestors, "
                "categories ascending, build_with_defaults errs iff a root is missing; root ids regenerated from the source; for every "
                "Builder-built ontology 'ancestors' is the transitive closure of the is_a links (C19_builder_is_modifier, "
                "C19_builder_categories). Tied to the crate "
                "by correspondence and by evaluating spec_C19 on the crate's observations. The same for EVERY ontology with exact caches (C19_is_modifier_exact_caches, C19_categories_exact_caches): JAX loads, sub-ontologies and accepted binary files are such. SOUNDNESS OF THE STATEMENT (C19_accepted_observation_means): what defaults_ok accepts is exactly the documented default sets and per-term classification. A third of the C19 worlds replace both groups through categories_mut / modifier_mut: is_modifier / categories must follow whatever groups are set. C19_setters_replace_previous_groups / C19_setters_idempotent: set_default_categories + set_default_modifier end in groups that depend on the terms alone; the world WDefaults runs them on ontologies whose groups were edited before.",
        "design_ref": "DESIGN.md §4 C19", "note": NOTE_COMMON, "technique": TECH,
    },
    "C04": {
        "text": "Theorems (Properties/C04.v, about the Gallina transcription of defaults.rs, in EVERY number structure): a term compared with "
                "itself scores 1 for GraphIC / Jiang-Conrath / Mutation; two distinct unannotated terms score 0 for Mutation; Distance ignores "
                "the kind; the zero-denominator guards of Lin and JC; Resnik is 0 or the IC of a common ancestor (selves included); SYMMETRY of "
                "all 8 algorithms x 3 kinds (whenever a score is returned the swapped call returns the same score) in every number structure "
                "with commutative addition, resting on C12's list equalities for union / intersection; over the REALS (exact arithmetic, IC = "
                "-ln(n/N)) every returned score is >= 0 and every division is by a positive number, for every ontology a Builder script "
                "builds (C04_exact_scores_nonnegative, C04_builder_scores_nonnegative; stdlib Reals axioms). PARTIAL: "
                "'value of the documented formula', finite and >= 0 are decided per input by spec_C04, which recomputes all 24 scores "
                "of every ordered pair from the crate's own observation (ancestor sets, ICs, shortest distances, annotation sets) in binary32 "
                "and demands bit equality, equality under argument swap, no NaN / infinity / negative value and the special cases; the "
                "transcription is diffed bit for bit against the crate. No theorem covers float rounding / overflow; expf is an oracle. C04_constructed_scores_nonnegative: the same for every ontology produced by any public constructor. TOTALITY (C04_ic_similarities_return, C04_distance_similarity_returns): for terms of an acyclic ontology with exact caches the six IC-based algorithms always return; Distance returns when the distance fits u16.",
        "design_ref": "DESIGN.md §4 C04",
        "note": NOTE_COMMON + "Flocq binary32 = Rust f32 arithmetic; logf / expf sampled.",
        "technique": TECH,
    },
    "C05": {
        "text": "Theorems (Properties/C05.v, about the Gallina transcription, all sizes): Matrix::rows / cols (range slicing, skip + step_by) are "
                "exactly row i = data[i*c+j], column j = data[i*c+j]; SimilarityCombiner::calculate (binary32 instance) equals the documented "
                "funSimAvg / funSimMax / BMA formula over those rows and columns for every well-formed matrix, square or not, and 0 when empty; "
                "GroupSimilarity builds the |A| x |B| row-major matrix; the caching adaptor is transparent for every similarity and every "
                "reachable cache state (invariant proof over the query sequence); with a symmetric similarity the result is order-independent "
                "in every number structure with commutative + and max. Tied to the crate bit for bit (Flocq binary32) on generated matrices, "
                "set pairs, asymmetric table-driven similarities and cached query sequences, incl. the log of inner similarity calls. A second cached adaptor around another similarity is alive at the same time and used alternately on the same queries (adaptors must not share their memo). C05_model_meets_statement_on_matrices: the matrix half of spec_C05 holds of the transcription for ALL dimensions and data.",
        "design_ref": "DESIGN.md §4 C05",
        "note": NOTE_COMMON + "Axioms: the four standard-library axioms behind Coq Reals (via Flocq's binary32 definitions). Commutativity of binary32 + is a hypothesis of the symmetry theorem (not proved for Flocq here); the check compares (A,B) with (B,A) bit for bit instead.",
        "technique": TECH,
    },
    "C06": {
        "text": "Theorems (Properties/C06.v, about the Gallina transcription with the p-value in exact arithmetic, unbounded): SampleSet size = "
                "number of terms and count(g) = number of term-annotation links, every stored count positive; the model's binomial is Pascal's; "
                "Vandermonde's identity; the exact p-value lies in [0,1] for every (N, K <= N, n <= N, k); the tail is antitone in k; at or "
                "below the support the tail is 1 (the code's x < min branch), at or above max it is 0; the recurrences the check executes equal "
                "the definitional tail for every population size. PARTIAL: the crate's f64 evaluation through ln_gamma / ln / exp (libm) is not "
                "modelled bit for bit; spec_C06 decides per input: exactly one record per annotation linked to a sample term, with k, p within "
                "relative 1e-9 of the exact tail P[X >= k] for (N, K, n) recomputed from the crate's own observation, p in [0,1] and antitone "
                "in k on the crate's values, fold enrichment bit-exact (Flocq binary64); counts, wiring and fold are diffed against the crate. TOTALITY (C06_enrichment_returns): the enrichment returns when annotation ids resolve, the sample is not larger than the background and no annotation is linked more often in the sample than in the background (none of the expect() calls panics).",
        "design_ref": "DESIGN.md §4 C06, §9",
        "note": NOTE_COMMON + "Axioms: the four standard-library axioms behind Coq Reals (via Flocq's binary64 definitions used in the run file).",
        "technique": TECH,
    },
    "C07": {
        "text": "Theorems (Properties/C07.v, about the Gallina transcription, unbounded): record-level round trips — what the writer emits for "
                "one term (layout v2/v3), one gene, one disease is read back as exactly that record (id, name cut at the limit, obsolete flag, "
                "replacement, direct terms), the length prefix is the record length; a valid UTF-8 name cut at a char boundary stays valid, a "
                "name within the limit is not cut; big-endian u32 round trip; cut bounded by limit and name; limits fit the one-byte field; "
                "writer header accepted by the reader (constants regenerated from the source). SECTION LEVEL, any number of records: the term, "
                "parent, gene and disease sections are read back as the corresponding sequence of Builder operations (C07_term_section, "
                "C07_parent_section, C07_record_section). WHOLE FILE (C07_decode_encode_is_rebuild): from_bytes(as_bytes o), for any order in "
                "which the HashMaps emit the records, IS the Builder pipeline (insert raw terms, add parent links, connect_all_terms, load and "
                "propagate every record, calculate_information_content, build_with_defaults) run on the raw facts o carries — the file layer "
                "is transparent. TERM STRUCTURE (C07_reload_keeps_terms): for every ontology with exact caches and children = parents^-1 "
                "that the format can carry — every Builder-built one is such (C07_builder_ontologies_are_sources) — the reload returns every "
                "term at the same position with the same id, name (cut at the limit), obsolete flag, replacement, direct parents, children and "
                "ancestor cache. ANNOTATIONS (C07_reload_keeps_annotations): if moreover the is_a graph is acyclic and every term of the source "
                "carries exactly the annotations with a direct fact at the term or one of its descendants (the C02 statement), then after the "
                "reload every term carries, for each kind, exactly the same set, for any permutation of the records in the file. ALL THESE "
                "HYPOTHESES ARE DISCHARGED for Builder-built ontologies (C07_builder_ontologies_roundtrip: any script, any call order, failing "
                "calls included). THE WHOLE PROPERTY FOR EVERY BUILDER-BUILT ONTOLOGY (C07_builder_roundtrip_complete): additionally the "
                "information content of every term, the record maps (exactly the records written, gene names cut at the limit, in file order), "
                "the release version and — when the script ended in build_with_defaults — the category and modifier sets come back equal; "
                "no hypothesis remains but that the format can carry the ontology (file_ok: ids and lengths within the field widths, valid "
                "UTF-8). THE SAME FOR THE OTHER CONSTRUCTION PATHS: C07_roundtrip_any_source states the round trip for any source with exact "
                "caches, children = parents^-1, an acyclic graph, inherited annotation sets, IC = calculate(N, n) and distinct record ids; "
                "C07_jax_roundtrip_complete discharges these for every ontology from_standard / from_standard_transitive loads from files whose "
                "hp.obo has a stanza for every is_a target, C07_sub_ontology_roundtrip_complete for every sub_ontology of an ontology with exact "
                "caches. Additionally decided per generated ontology by running the encode/decode transcription against as_bytes/from_bytes (bytes compared "
                "record-sorted, reload dumped through the whole read API, Ontology::compare consulted) and by spec_C07 on the crate's observation. ALL REACHABLE ONTOLOGIES (C07_every_constructed_ontology_roundtrips): the round trip for every ontology produced by any public constructor, nested sub-ontologies included. ACCEPTANCE (C07_writer_output_is_accepted, C07_constructed_output_is_accepted): from_bytes(as_bytes o) RETURNS an ontology for every well-formed source with both standard roots that the format can carry — in particular for every ontology produced by the public constructors; the loader neither rejects nor panics nor runs out of fuel.",
        "design_ref": "DESIGN.md §4 C07, §9", "note": NOTE_COMMON + "String::from_utf8 / is_char_boundary modelled by byte-level predicates.", "technique": TECH,
    },
    "C08": {
        "text": "Theorems about the Gallina transcription of Ontology::from_bytes (Properties/C08.v, EVERY byte string): an accepted file "
                "followed by any non-empty suffix is Err(ParseBinaryError); no proper prefix of an accepted file is accepted (error or panic, "
                "never an ontology) — both for v1, v2 and v3 alike, by a lock-step simulation of the section reads; every input shorter than "
                "the minimum header is Err(ParseBinaryError); magic + version byte other than 2/3 is Err(NotImplemented); the emitted version is "
                "an accepted one (constants regenerated from the source). WHAT AN ACCEPTED BYTE STRING IS (v1, v2, v3; any bytes whose parent "
                "section names only stored terms and whose annotation sections repeat no record id): C08_accepted_file_describes_result "
                "(header version, one term per term record with id / name / flags, one direct link per pair of the parent section, records "
                "in file order, no ORPHA records from v1 / v2 — relative to bin_sections / parse_parents / parse_records, the reading of "
                "the layout), C08_accepted_file_is_wellformed (exact caches, children = parents^-1, acyclic, inherited annotation sets, "
                "IC = calculate(N, n)), C08_record_order_irrelevant, C08_accepted_file_reserialises, C08_conditions_satisfiable. "
                "The older layouts: C08_layout_v2_is_honoured and C08_layout_v1_is_honoured (from_bytes on a v2 / v1 file of any ontology the "
                "layout can carry is the Builder pipeline on exactly the facts in the file; v2 decodes like v3 without ORPHA). "
                "Executed additionally: files produced by an independent encoder (harness/src/bin.rs) at EVERY truncation offset, with "
                "suffixes, foreign version bytes and 12-24 single-byte mutants each (whole outcome compared; the evaluator decode_g is "
                "proved equal to decode), and spec_C08 on the crate's observation.",
        "design_ref": "DESIGN.md §4 C08, §9", "note": NOTE_COMMON + "harness/src/bin.rs defines the documented layouts.", "technique": TECH,
    },
    "C09": {
        "text": "Theorems (Properties/C09.v, about the byte-level text functions of the Gallina transcription): split inverts join on pieces "
                "without the separator; strip_prefix; a `key: value` line splits at the first ': ' and keeps the whole value (names with "
                "': '); the id of an is_a line is the text before the first blank; parsing the HP:%07d rendering returns the id (every u32); "
                "`lines` inverts joining; ONE [Term] STANZA as the JAX file writes it (id, name, any other tags, is_a lines with labels, "
                "is_obsolete, replaced_by) is read back by term_from_obo as exactly that term and by add_connections as exactly one link per "
                "is_a line, for every term / names / labels / extra tags without line breaks. "
                "THE WHOLE hp.obo FILE (C09_read_obo_file): a header chunk followed by any number of such stanzas, joined by one blank line "
                "each, is read by read_obo_file as: the header's release version; every stanza's term in file order; exactly the is_a links of "
                "the stanzas, applied after all terms are known (split on a blank line inverts that join: C09_split_inverts_blank_join). "
                "THE TWO ANNOTATION FILES (C09_gene_file, C09_hpoa_file): header + rows, with or without a final newline, are read as exactly one "
                "annotate call per (non-NOT, OMIM/ORPHA) row in file order; comment, header and other-database lines contribute nothing; ids "
                "rendered in decimal of any width parse back. BOTH LOADERS (C09_loaded_ontologies_satisfy_C01_C02_C03): whenever a load "
                "succeeds on files whose hp.obo names only is_a targets with their own stanza, the ontology has exact ancestor caches, an "
                "acyclic graph, annotation sets = inherited direct rows and information content = calculate(N, n); the ontology returned is what "
                "the files say (C09_loaded_ontology_is_what_the_files_say: header version, one term per [Term] stanza, one direct link per "
                "is_a line, per record exactly the direct terms its rows name); LOADER = BUILDER (C09_loader_equals_builder): a loaded "
                "ontology and any Builder-built one with the same direct facts agree term by term on parents, children, ancestor caches, "
                "annotation sets and information content. Equality with the Builder "
                "and binary paths is additionally decided per generated directory by spec_C09 on the "
                "crate's observations (both loaders, the Builder API and the binary format give the same dump, and that dump is exactly the "
                "one the facts describe, with the C01-C03 statements on everything derived) and by diffing the Gallina transcription of "
                "hp_obo.rs / parser.rs (run on the SAME file bytes) against the crate.",
        "design_ref": "DESIGN.md §4 C09", "note": NOTE_COMMON + "File-system access is outside the model.", "technique": TECH,
    },
    "C10": {
        "text": "Theorems (Properties/C10.v, about the Gallina transcription of the two-table arena, for EVERY insertion sequence and EVERY id): "
                "get after any insertions = first inserted term with that id, None outside the id space; a returned term carries the asked id; "
                "iteration yields each inserted id exactly once and agrees with len; insertion outside the id space panics; id-space size "
                "regenerated from the source. Tied to the crate by sweeping Ontology::hpo over all 10^7+2 ids (plus probes to u32::MAX) per "
                "generated ontology, and by evaluating spec_C10 (incl. the name lookups) on the crate's observation. Sub-check C10m does the "
                "same sweep on an ontology of more than 65 536 terms (beyond a 16-bit slot index), which the model builds through block forms "
                "proved equal to the call-by-call Builder transcription (C10_many_terms_block_is_calls, C10_connect_without_links, "
                "C10_many_terms_script). RECORD LOOKUPS (C10_record_by_id, C10_gene_by_symbol, C10_disease_name_search_exact, C10_first_disease_by_name, C10_contains_is_infix): lookup by id returns the record with that id or nothing exists; gene_by_name a gene with exactly that symbol or none exists; the name search exactly the diseases whose name contains the query as a byte string. SOUNDNESS OF THE STATEMENT (C10_accepted_observation_means): an accepted observation says: every answer carries the asked id inside the id space, answered ids strictly ascending, iteration = those ids, len() their number, and for a Builder script an id is answered iff a new_term call supplied it, with the name of the FIRST such call (a third of the scripts supply an id twice). HpoTerm::try_new is swept alongside Ontology::hpo and must agree.",
        "design_ref": "DESIGN.md §4 C10", "note": NOTE_COMMON + "str::contains modelled as byte-level infix.", "technique": TECH,
    },
    "C11": {
        "text": "Theorems (Properties/C11.v): about the Gallina transcription of distance_to_ancestor, for every ontology with exact ancestor "
                "caches and every fuel — the returned distance is the length of an actual chain of parent links, no chain is shorter, the "
                "cache-based pruning never cuts a reachable target, None iff the target is neither the term nor an ancestor; path_to_ancestor "
                "returns a chain of parent links ending in the target, of minimal length; and about the reference distance sd used by the "
                "executable statement (a chain length, minimal over all chains; chains are walks). "
                "distance_to_term is realised by two upward chains that meet, is the minimum over ALL meeting points, None iff there is none, "
                "0 on a term with itself, and independent of the argument order; path_to_term between distinct terms is a walk along is_a "
                "links (up, then down) ending in the target, no longer than any two upward chains that meet. The hypothesis of all of these "
                "(qgood: unique ids, resolving links, sorted groups, exact ancestor caches) is PROVED to hold of every ontology any Builder "
                "script produces, whatever calls fail on the way (C11_builder_ontologies_are_qgood). "
                "spec_C11 compares every distance the crate reports with sd over the reported parent links, distance_to_term with the "
                "minimum over common ancestors, and checks every reported path link by link (a walk of exactly the reported distance); the "
                "transcription of the four queries is diffed against the crate on ALL ordered pairs of each generated ontology and on "
                "selected pairs of 70-130-term chains. Not proved: that ontologies loaded from binary or JAX files are qgood (executed). C11_constructed_ontologies_are_qgood: the hypothesis of all these theorems holds for every ontology produced by any public constructor. TOTALITY (C11_distance_to_ancestor_returns, C11_path_to_ancestor_returns, C11_distance_to_term_returns, C11_path_to_term_returns): in an acyclic ontology with exact caches all four queries return for all terms (none of path_to_term's expect() panics).",
        "design_ref": "DESIGN.md §4 C11, §9", "note": NOTE_COMMON + "Acyclic inputs only. Paths compared for validity and length, not identity.", "technique": TECH,
    },
    "C13": {
        "text": "Theorems (Properties/C13.v, about the Gallina transcription): without_obsolete / with_replaced_obsolete are exactly the stated "
                "filter / substitution, child_nodes keeps exactly the members that are no ancestor of any member, without_modifier exactly the "
                "non-modifier members (results strictly ascending, membership characterised), in-place variants equal the copying ones; the gene / "
                "OMIM / ORPHA ids of a set are the union over its members (a sorted set), category counts count the members per category, the "
                "aggregated information content is calculate(records, size of the union) for genes and OMIM. spec_C13 "
                "states child_nodes, modifier filter, unions of annotation ids, category counts and aggregated IC against the observation and "
                "is evaluated on the crate's observation of every generated set; model and crate are diffed. TOTALITY (C13_operations_return): on a set whose members are terms of the ontology every operation returns. SOUNDNESS OF THE STATEMENT (C13_accepted_observation_means): an observation accepted by spec_C13 says, set by set, exactly the clauses of the property (child_nodes = members no member descends from; filters keep the unflagged members; replacement; unions; in place = copying). The check also changes each set in place AFTER its aggregates were asked for once and asks again (they must be those of the members it has now), and a quarter of the worlds carry user-chosen category / modifier groups (categories_mut / modifier_mut).",
        "design_ref": "DESIGN.md §4 C13", "note": NOTE_COMMON, "technique": TECH,
    },
    "C14": {
        "text": "Theorems (Properties/C14.v): about the Gallina transcription of sub_ontology — the retained ids are exactly every leaf plus "
                "the path path_to_ancestor chose from it to the root; every retained term lies on a SHORTEST chain of parent links from some "
                "leaf to the root (via the path_to_ancestor theorems of C11); the call is refused with NotImplemented exactly because some "
                "leaf has no path to the root; and about the executable statement — a term accepted by the retained-term test lies on a "
                "shortest leaf-root chain, a result passing closure_ok is again an exact transitive closure. STRUCTURE (C14_model_structure): "
                "for every source ontology with exact caches (every Builder-built one), every root and leaves, a successful call returns an "
                "ontology that again has unique ids, resolving links, sorted groups and EXACT ancestor caches, whose terms are exactly the "
                "retained ids, and whose links are exactly the INDUCED ones (c -> p iff both retained and c -> p in the source); "
                "add_parent_unchecked on two present terms is add_parent. ANNOTATIONS (C14_model_annotations): a record of the source is kept iff "
                "one of its direct terms is a retained term that is neither a modifier root nor below one; a kept record keeps exactly its "
                "direct terms that are retained; the result is acyclic and every one of its terms carries exactly the kept records with a "
                "retained direct term at the term or below it (the C02 statement holds again in the result). spec_C14 states retained set, induced links, copied names/flags, "
                "preserved distances, refusal iff a leaf is outside the subtree, the annotation filter, and re-runs the executable statements "
                "of C01-C03 on the result, evaluated on the crate's observation; the transcription is diffed against the crate. LEAF DISTANCE (C14_model_leaf_distance_kept): every leaf reaches root in the result by a chain whose length is the shortest distance in the source, and no chain of the result is shorter; C14_model_contains_leaves_and_root. C14_model_acceptance: the call is refused only then (the retained set is computed whenever every leaf is root or below it); C14_model_leaf_collection_is_a_set: order and multiplicity of the leaves are irrelevant. C14_model_sub_ontology_returns: the whole call returns for an acyclic source with exact caches when every leaf is a stored term that is root or below it (and the IC function is defined on counts up to the source's). NAMES AND FLAGS (C14_model_names_and_flags_copied): every term of the result carries name, obsolete flag and replacement of the source term with that id. A quarter of the source worlds carry user-chosen modifier groups, a sixth names beyond the 255-byte limit of the binary record.",
        "design_ref": "DESIGN.md §4 C14, §9", "note": NOTE_COMMON, "technique": TECH,
    },
    "C17": {
        "text": "Theorems (Properties/C17.v): soundness of the replay spec_C17 runs on the crate's reported merges — an accepted merge list IS "
                "a dendrogram over the n inputs (one node per merge, lhs < rhs < n+k, reported size = leaves(lhs)+leaves(rhs) stored as size of "
                "node n+k, live and merged nodes together without repetition exactly 0..n+|merges|-1, leaves of the live nodes = the n inputs; "
                "with one node left: n-1 merges and last size n); about the transcription — the Combinations iterator state machine yields "
                "exactly the remaining live pairs for every fuel, Combinations::new yields every unordered pair once, closest_clusters returns "
                "a minimum of the matrix; an accepted leaf order is a permutation. THE LOOP ITSELF (C17_clustering_run, every number type, every "
                "distance function, all four methods): a successful run on n >= 1 sets is a sequence of merges, each joining the entry "
                "closest_clusters returns for the matrix of THAT moment, between two distinct live nodes, with the sizes added; the matrix "
                "holds at every moment exactly the pairs of live nodes; the run ends after exactly n-1 merges with one live node. "
                "C17_distances_follow_method: for single / complete / average the distance of every other live node to the new cluster is "
                "min / max / mean of its distances to the two merged nodes and all other distances are kept; C17_union_distances: for union the "
                "new cluster's set is the union of the two merged sets and the distance of every other live node to it is the user's distance "
                "between that union and the node's set (set_to_last yields the new set paired with every live set, in order); "
                "C17_initial_matrix: the run starts from the user's distance of every pair of input sets (each pair asked once: "
                "C17_initial_pairs_each_once). The replay additionally checks per merge that no live pair is closer, the reported distance, and the "
                "method-specific update (min / max / mean / user distance on the union); the transcription is diffed bit for bit. THE MODEL'S RUN RETURNS A DENDROGRAM (C17_run_returns_a_dendrogram, every number type / distance / method): n-1 merges, merge k has lhs < rhs < n+k and size = sum of its parts, every node 0..2n-3 is merged exactly once, the last merge has size n, indicies is a permutation of 0..n-1. TOTALITY (C17_clustering_returns): all four methods return on every non-empty list of sets, for every number type and distance function (no expect() of linkage.rs panics, the Combinations iterator ends within its fuel) — so clustering n sets YIELDS exactly n-1 merges forming a dendrogram. A fifth of the one-term-set cases carry one infinite user distance (merged last, no ties). Beyond the model's reach in size: one clustering of 260-300 sets per run is checked for the dendrogram conditions by an oracle inside the harness (testing, not proof; the theorem covers every n for the transcription).",
        "design_ref": "DESIGN.md §4 C17, §9",
        "note": NOTE_COMMON + "Axioms: the four standard-library axioms behind Coq Reals (via Flocq's binary32 in the replay's distance type). HashMap order: on a tie the crate may merge another minimal pair than the model; such runs are decided by the replay only.",
        "technique": TECH,
    },
    "C18": {
        "text": "Theorems (Properties/C18.v, 16 statements): (a) the reference report the check compares the crate's report with is, for ALL "
                "pairs of observations, exactly: added/removed = set differences of term / record ids; a term (record) present in both is "
                "reported iff name, direct parents, obsolete flag or resolved replacement (name or direct term set) differ; each delta lists "
                "exactly the added and removed parents (terms) and the old/new values; (b) about the Gallina transcription of comparison.rs, "
                "for ALL ontologies: added characterised, swapping arguments swaps added with removed, comparing a well-formed ontology with "
                "itself yields the empty report. The crate's reports for compare(old,new), compare(new,old), compare(old,old) and "
                "compare(old, reload(old)) are checked against the reference, against the swap, and diffed against the transcription. ROUND TRIP (C18_builder_roundtrip_compares_equal, C18_jax_roundtrip_compares_equal, via C18_model_compare_equivalent_empty and the C07 theorems): comparing a Builder-built or JAX-loaded ontology with what from_bytes returns for its as_bytes output yields the empty report, for any record order in the file, when term and gene names fit the one-byte length field. C18_model_compare_returns: the comparison returns on any two well-formed ontologies.",
        "design_ref": "DESIGN.md §4 C18", "note": NOTE_COMMON, "technique": TECH,
    },
    "C20": {
        "text": "Theorems (Properties/C20.v, about the Gallina transcription, unbounded): parse(show n) = Ok n for EVERY n <= u32::MAX (induction "
                "over digits, not enumeration); big-endian byte round trip; rendered shape 'HP:' + >= 7 digits; the parser never panics on any "
                "byte string. Tied to the crate by sweeping ALL ids 0..10^7+1 and the u32 borders through to_string/try_from/to_be_bytes/from, "
                "and by diffing model and crate on generated texts (multi-byte characters at every offset). EXACT ACCEPTANCE (C20_parse_accepts_exactly, C20_parse_error_kind): parsing returns Ok n iff the text has the minimal length, byte 3 is a character boundary and the rest is an optional + and a non-empty ASCII digit string of decimal value n <= u32::MAX; every other text is Err(ParseIntError). EXACT RENDERING (C20_show_is_padded_decimal): the digits after HP: have decimal value n, exactly seven of them for every id below 10^7, no leading zero beyond.",
        "design_ref": "DESIGN.md §4 C20", "note": NOTE_COMMON + "u32::from_str grammar as documented by core.", "technique": TECH,
    },
    "C12": {
        "text": "Unbounded theorems (Properties/C12.v, 16 statements, closed under the global context): every group operation "
                "(insert, contains, |, &, +, | id, the four constructors) preserves strict ascending order and computes exactly the "
                "set-theoretic result; set equalities are list equalities; the ancestor queries of two terms (common_ancestor_ids, "
                "all_common_ancestor_ids, union_ancestor_ids, all_union_ancestor_ids) are the intersection / union of the two ancestor groups, "
                "the terms themselves added on both sides in all_common only, and do not depend on the argument order. The model is tied to "
                "src/term/group.rs by running both on thousands of seeded histories/pairs (sizes crossing the inline limit 30) and to "
                "src/term/hpoterm.rs by running the eight pair queries (id groups and Combined iterators) on ALL ordered pairs of terms of "
                "generated ontologies (sub-check C12t), evaluating the executable statements spec_C12 / spec_C12t inside Coq on the "
                "implementation's observations.",
        "design_ref": "DESIGN.md §4 C12",
        "note": NOTE_COMMON + "std binary_search contract; SmallVec storage not modelled.",
        "technique": TECH,
    },
}

ALL = [f"C{i:02d}" for i in range(1, 21)]
NOT_APPLICABLE = [
    {"property_id": p, "reason": "check not built yet (model, theorems and harness in progress; DESIGN.md §7 order of work)"}
    for p in ALL if p not in TEXTS
]

ENGINES = [
    {"name": "coq-model+correspondence", "path": "coq/theories", "serves_properties": sorted(TEXTS),
     "kind_free_text": "Gallina model (Model/), specifications (Spec/), proofs (Proofs/), property statements (Properties/), "
                       "executable entry points (Run/); harness/ runs the real crate; tools/check.py drives proof gate, "
                       "correspondence gate and spec evaluation"},
]

NOTES = ("All checks: ./check <id> --tier quick|thorough. Env VERIF_SEED selects the PRNG seed. Evidence is rewritten on every run. "
         "known_findings.txt lists fixed defects (suppress nothing) and, if any, unfixed findings.")
