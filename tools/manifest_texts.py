"""Human-written texts for MANIFEST.json (per property) — see tools/gen_manifest.py."""

TECH = "machine-checked proof in Coq 8.16 about an executable Gallina model; model tied to the code by a vm_compute correspondence run against the real crate"

NOTE_COMMON = ("Trusted: Coq kernel + vm_compute; the hand-written model (tied to /repo only by the correspondence run on generated "
               "inputs); harness/differ/parser; extract_consts.py. Axioms: none beyond those listed per property. ")

TEXTS = {
    "C01": {
        "text": "Theorems (Properties/C01.v): any observation of an ontology that passes the executable statement closure_ok reports, "
                "for every term, exactly clos_trans of the reported parent relation, never the term itself, children as the exact "
                "inverse of parents, child_of/parent_of as membership (proved for all observations, no bound). The check evaluates "
                "closure_ok inside Coq on the real crate's observation of every generated ontology and diffs the Gallina transcription "
                "of connect_all_terms/create_cache_of_grandparents/all_grandparents against the crate.",
        "design_ref": "DESIGN.md §4 C01",
        "note": NOTE_COMMON + "Acyclic inputs only (the property's quantifier).",
        "technique": TECH,
    },
    "C12": {
        "text": "Unbounded theorems (Properties/C12.v, 12 statements, closed under the global context): every group operation "
                "(insert, contains, |, &, +, | id, the four constructors) preserves strict ascending order and computes exactly the "
                "set-theoretic result; set equalities are list equalities. The model is tied to src/term/group.rs by running both on "
                "thousands of seeded histories/pairs (sizes crossing the inline limit 30) and evaluating the executable statement "
                "spec_C12 inside Coq on the implementation's observations.",
        "design_ref": "DESIGN.md §4 C12",
        "note": NOTE_COMMON + "std binary_search contract; SmallVec storage not modelled.",
        "technique": TECH,
    },
}

ALL = [f"C{i:02d}" for i in range(1, 21)]
NOT_APPLICABLE = [
    {"property_id": p, "reason": "check not built yet in this round of work (model and theorems in progress; see DESIGN.md §7 order of work)"}
    for p in ALL if p not in TEXTS
]

ENGINES = [
    {"name": "coq-model+correspondence", "path": "coq/theories", "serves_properties": sorted(TEXTS),
     "kind_free_text": "Gallina model (Model/), specifications (Spec/), proofs (Proofs/), property statements (Properties/), "
                       "executable entry points (Run/); harness/ runs the real crate; tools/check.py drives proof gate, "
                       "correspondence gate and spec evaluation"},
]

NOTES = ("All checks: ./check <id> --tier quick|thorough. Env VERIF_SEED selects the PRNG seed. Evidence is rewritten on every run. "
         "known_findings.txt lists fixed defects (suppress nothing) and, if any, unfixed findings.")
