"""Human-written texts for MANIFEST.json (per property) — see tools/gen_manifest.py."""

TECH = "machine-checked proof in Coq 8.16 about an executable Gallina model; model tied to the code by a vm_compute correspondence run against the real crate"

NOTE_COMMON = ("Trusted: Coq kernel + vm_compute; the hand-written model (tied to /repo only by the correspondence run on generated "
               "inputs); harness/differ/parser; extract_consts.py. Axioms: none beyond those listed per property. ")

TEXTS = {
    "C01": {
        "text": "Theorems (Properties/C01.v): any observation of an ontology that passes the executable statement closure_ok reports, "
                "for every term, exactly clos_trans of the reported parent relation, never the term itself, children as the exact "
                "inverse of parents, child_of/parent_of as membership (proved for all observations, no bound). The check evaluates "
                "closure_ok inside Coq on the real crate's observation of every generated ontology and diffs the Gallina transcription "
                "of connect_all_terms/create_cache_of_grandparents/all_grandparents against the crate.",
        "design_ref": "DESIGN.md §4 C01",
        "note": NOTE_COMMON + "Acyclic inputs only (the property's quantifier).",
        "technique": TECH,
    },
    "C02": {
        "text": "Theorems (Properties/C02.v): an observation that passes kind_ok links a term to an annotation id iff a record of that kind "
                "has a direct term equal to the term or below it; record ids unique, direct lists duplicate-free and resolving; linked ids "
                "resolve in the same kind. The check evaluates this on the real crate's observation for the three kinds separately, compares "
                "the records with the facts the Builder script supplied, probes the three id maps for kind leakage, and diffs the Gallina "
                "transcription of link_*_term/annotate_* (recursive early-exit propagation) against the crate.",
        "design_ref": "DESIGN.md §4 C02", "note": NOTE_COMMON + "Acyclic inputs only.", "technique": TECH,
    },
    "C03": {
        "text": "Theorems (Properties/C03.v): the documented formula over the reals is >= 0 for n <= N, antitone in n, 0 for n=0 or N=0 or n=N; "
                "the f32 implementation's zero guard, u16 conversion guard and its exact shape (one binary32 division, logf, one multiplication). "
                "The float evaluation is executed bit-exactly (Flocq) against the crate with the runtime's logf as an oracle table: the float "
                "layer is partial (no theorem about logf).",
        "design_ref": "DESIGN.md §4 C03, §2.6",
        "note": NOTE_COMMON + "Axioms: the four standard-library axioms behind Coq Reals (sig_not_dec, sig_forall_dec, functional_extensionality_dep, classic). Flocq binary32 = Rust f32 arithmetic; logf sampled.",
        "technique": TECH,
    },
    "C15": {
        "text": "Theorems (Properties/C15.v): an observation passing ref_closed has no dangling id in any accessor; equal-observation test is "
                "sound. The check runs every generated call history twice on the real Builder (with and without its failing calls), demands "
                "identical read-API dumps, exact error codes (fails iff an absent term is named), a panic-free complete read-API walk, and "
                "agreement with the Gallina Builder model.",
        "design_ref": "DESIGN.md §4 C15", "note": NOTE_COMMON, "technique": TECH,
    },
    "C16": {
        "text": "Theorem (Properties/C16.v): observations accepted by spec_C16 are pairwise identical. The check builds every fact set in three "
                "independent random orders with the real Builder and with the model and demands identical canonical dumps.",
        "design_ref": "DESIGN.md §4 C16", "note": NOTE_COMMON, "technique": TECH,
    },
    "C19": {
        "text": "Theorems (Properties/C19.v, about the Gallina transcription): default modifier = children(HP:1) minus HP:118, default "
                "categories = those plus children(HP:118), is_modifier / categories characterised by membership in {self} + ancestors, "
                "categories ascending, build_with_defaults errs iff a root is missing; root ids regenerated from the source. Tied to the crate "
                "by correspondence and by evaluating spec_C19 on the crate's observations.",
        "design_ref": "DESIGN.md §4 C19", "note": NOTE_COMMON, "technique": TECH,
    },
    "C12": {
        "text": "Unbounded theorems (Properties/C12.v, 12 statements, closed under the global context): every group operation "
                "(insert, contains, |, &, +, | id, the four constructors) preserves strict ascending order and computes exactly the "
                "set-theoretic result; set equalities are list equalities. The model is tied to src/term/group.rs by running both on "
                "thousands of seeded histories/pairs (sizes crossing the inline limit 30) and evaluating the executable statement "
                "spec_C12 inside Coq on the implementation's observations.",
        "design_ref": "DESIGN.md §4 C12",
        "note": NOTE_COMMON + "std binary_search contract; SmallVec storage not modelled.",
        "technique": TECH,
    },
}

ALL = [f"C{i:02d}" for i in range(1, 21)]
NOT_APPLICABLE = [
    {"property_id": p, "reason": "check not built yet in this round of work (model and theorems in progress; see DESIGN.md §7 order of work)"}
    for p in ALL if p not in TEXTS
]

ENGINES = [
    {"name": "coq-model+correspondence", "path": "coq/theories", "serves_properties": sorted(TEXTS),
     "kind_free_text": "Gallina model (Model/), specifications (Spec/), proofs (Proofs/), property statements (Properties/), "
                       "executable entry points (Run/); harness/ runs the real crate; tools/check.py drives proof gate, "
                       "correspondence gate and spec evaluation"},
]

NOTES = ("All checks: ./check <id> --tier quick|thorough. Env VERIF_SEED selects the PRNG seed. Evidence is rewritten on every run. "
         "known_findings.txt lists fixed defects (suppress nothing) and, if any, unfixed findings.")
