#!/usr/bin/env python3
"""tools/harmless.py <id> <prop> [<prop> ...] — applies the BEHAVIOUR-PRESERVING rewrite /verif/harmless/<id>/patch.diff
to /repo, runs the quick checks of the given properties (they must stay silent), undoes the patch and records the
outcome in harmless/<id>/result.json.  Counterpart of tools/seedall.py: that one measures misses, this one false alarms."""
import json, os, subprocess, sys, time
ROOT = os.path.dirname(os.path.dirname(os.path.abspath(__file__)))

def sh(cmd, cwd=None):
    p = subprocess.run(cmd, shell=True, cwd=cwd, stdout=subprocess.PIPE, stderr=subprocess.STDOUT, text=True)
    return p.returncode, p.stdout

def main():
    hid, props = sys.argv[1], sys.argv[2:]
    d = os.path.join(ROOT, "harmless", hid)
    rc, out = sh("git status --porcelain --untracked-files=no", cwd="/repo")
    if out.strip():
        print("/repo not clean"); return 2
    rc, out = sh(f"git apply {os.path.join(d, 'patch.diff')}", cwd="/repo")
    if rc != 0:
        print(hid, "patch does not apply:", out[-300:]); return 2
    saved = {}
    for p in props:
        ev = os.path.join(ROOT, "evidence", p + ".json")
        saved[ev] = open(ev).read() if os.path.exists(ev) else None
    results = {}
    try:
        for p in props:
            t0 = time.time()
            rc, out = sh(f"./check {p} --tier quick", cwd=ROOT)
            viol = [l for l in out.split("\n") if l.startswith("VIOLATION")]
            last = [l for l in out.split("\n") if l.startswith(f"[{p}] tier=")]
            fallback = None
            try:
                fallback = json.load(open(os.path.join(ROOT, "evidence", p + ".json")))["coverage"]["constants"]["pinned_fallback"]
            except Exception:
                pass
            results[p] = {"exit": rc, "violation_line": viol[0] if viol else None, "summary": last[-1] if last else None,
                          "constants_pinned_fallback": fallback, "wall_s": round(time.time() - t0, 1)}
            print(hid, p, "ALARM" if (rc != 0 or viol) else "silent", flush=True)
    finally:
        sh("git checkout -- .", cwd="/repo")
        for ev, content in saved.items():
            if content is None:
                if os.path.exists(ev):
                    os.remove(ev)
            else:
                open(ev, "w").write(content)
    old = {}
    rp = os.path.join(d, "result.json")
    if os.path.exists(rp):
        old = json.load(open(rp)).get("checks", {})
    old.update(results)
    json.dump({"id": hid, "checks": old, "false_alarms": [p for p, r in old.items() if r["exit"] != 0 or r["violation_line"]]},
              open(rp, "w"), indent=1)
    return 0

if __name__ == "__main__":
    sys.exit(main())
