"""Registry of the per-property checks (read by tools/check.py)."""

# Standard-library axioms that may appear under Print Assumptions (named in DESIGN.md §6).
AXIOM_ALLOW = {
    "ClassicalDedekindReals.sig_not_dec",
    "ClassicalDedekindReals.sig_forall_dec",
    "FunctionalExtensionality.functional_extensionality_dep",
    "Classical_Prop.classic",
}

COMMON_TRUST = [
    "Coq 8.16.1 kernel and vm_compute (no native_compute)",
    "hand-written Gallina model of the Rust functions (tied to the code by the correspondence run only)",
    "Rust harness generators/observers, tools/check.py differ, tools/coqterm.py parser",
    "tools/extract_consts.py (regenerates Gen/Consts.v from the current source)",
]


def sub(name, run, spec, imports, quick, thorough, compare=None):
    return {"name": name, "run": run, "spec": spec, "imports": imports, "count": {"quick": quick, "thorough": thorough}, "compare": compare}


W_IMPORTS = ["Run.World"]


def proj_c11(obs):
    """paths are compared for validity and length (by spec_C11), not for identity: a tie may be broken differently"""
    if isinstance(obs, tuple) and obs and obs[0] == "Ok" and isinstance(obs[1], tuple):
        ts, ps = obs[1][1], obs[1][2]
        out = []
        for p in ps:
            _, a, b, da, pa, dt, pt = p
            out.append(("", a, b, da, [len(x) for x in pa], dt, [len(x) for x in pt]))
        return ("Ok", ("", ts, out))
    return obs

def proj_c10(obs):
    """gene_by_name / omim_disease_by_name return SOME matching record (hash order): which one is checked by spec_C10, not compared"""
    if isinstance(obs, tuple) and obs and obs[0] == "Ok" and isinstance(obs[1], tuple):
        _, found, it, ln_, qs = obs[1]
        return ("Ok", ("", found, it, ln_, [("", len(q[1]), q[2], len(q[3])) for q in qs]))
    return obs

def proj_c01r(obs):
    """sub_ontology copies its terms out of a HashSet, so the iteration order of a sub-ontology (and the order of the
    blocks of the rendered text) is unspecified: terms are compared sorted by id, the texts as sorted lists of lines;
    that each text is the documented rendering of the terms IN THE OBSERVED ORDER is judged by spec_C01r"""
    if isinstance(obs, tuple) and obs and obs[0] == "Ok" and isinstance(obs[1], tuple):
        _, ts, m, g = obs[1]
        def lines(bs):
            out, cur = [], []
            for x in bs:
                if x == 10:
                    out.append(tuple(cur)); cur = []
                else:
                    cur.append(x)
            out.append(tuple(cur))
            return sorted(out)
        return ("Ok", ("", sorted(ts, key=lambda t: t[1]), lines(m), lines(g)))
    return obs

def cmp_c17(impl, model):
    """a run in which the model met a tie (two live pairs at the minimal distance) may legitimately merge another pair: not diffed"""
    import coqterm
    if isinstance(model, tuple) and model and model[0] == "Ok" and isinstance(model[1], tuple) and model[1][1] == 1:
        return None
    return coqterm.first_diff(impl, model)

def proj_c06(obs):
    """the p-value is an f64 on the crate's side and an exact rational on the model's: it is judged by spec_C06 (tolerance), not diffed"""
    if isinstance(obs, tuple) and obs and obs[0] == "Ok" and isinstance(obs[1], tuple):
        _, links, recs = obs[1]
        return ("Ok", ("", links, [("", r[1], r[2], r[4]) for r in recs]))
    return obs

PROPS = {
    "C01": {
        "subs": [sub("C01", "run_C01", "spec_C01", W_IMPORTS + ["Run.C01"], 400, 4000),
                 dict(sub("C01r", "run_C01r", "spec_C01r", W_IMPORTS + ["Run.C01r"], 100, 1000), proj=proj_c01r)],
        "run_modules": ["C01", "C01r"],
        "rule": "seeded acyclic is_a graphs (1-16 terms, thorough up to 60; multi-parent, redundant shortcut edges, several roots, "
                "disconnected terms; ids dense/sparse/borders decorrelated from topology; shuffled insertion and link order); "
                "non-trivial = a term with >= 2 parents and depth >= 3",
        "trust": [],
        "assumptions": ["is_a graphs are acyclic (the property's quantifier; cyclic input makes the library recurse forever)"],
    },
    "C02": {
        "subs": [sub("C02", "run_C02", "spec_C02", W_IMPORTS + ["Run.C02"], 400, 4000)],
        "run_modules": ["C02"],
        "rule": "seeded ontologies with the three annotation kinds (overlapping numeric ids, different totals, records without terms, "
                "repeated facts, facts on inner nodes whose ancestors are already linked via another child), supplied in random order; "
                "non-trivial = >= 3 annotation facts and depth >= 2",
        "trust": [], "assumptions": ["acyclic is_a graphs"],
    },
    "C03": {
        "subs": [sub("C03", "run_C03", "spec_C03", W_IMPORTS + ["Run.C03"], 400, 4000),
                 sub("C03f", "run_C03f", "spec_C03f", W_IMPORTS + ["Run.C03", "Run.C03f"], 4, 20)],
        "run_modules": ["C03", "C03f"],
        "rule": "sub-check C03f: InformationContent::set_gene / set_omim_disease / set_orpha_disease called directly on 200 (thorough 400) "
                "(total, current) pairs per case — totals up to and beyond 65 535 with counts equal to, 1-3 below and above them, zeros; "
                "main stream: two Builder worlds at the u16 limit first (one kind brought to exactly 65 535 records: accepted; to 65 536: "
                "calculate_information_content must return Err; thorough adds one more of each); then "
                "as C02 with up to 8 records per kind, kinds with zero records, terms linked to all records; IC compared bit-exactly "
                "(Flocq binary32 division and multiplication, runtime logf supplied as a table on exactly the quotients that occur)",
        "trust": ["Flocq 4.1 binary32 (IEEE-754) as the meaning of Rust f32 + - * /", "platform logf: oracle table produced by the harness with f32::ln"],
        "assumptions": ["logf is sampled, not specified: the float layer of C03 is partial (DESIGN.md §2.6)"],
    },
    "C04": {
        "subs": [sub("C04", "run_C04", "spec_C04", W_IMPORTS + ["Run.C04"], 120, 1200)],
        "run_modules": ["C04"],
        "rule": "ontologies of 2-9 terms (thorough up to 16; Builder and binary v1-v3; diamonds, shortcut edges, several roots, disconnected "
                "and obsolete terms, kinds without records, terms without annotations); ALL ordered pairs of terms x 8 algorithms x 3 kinds, "
                "called through Builtins::new(name, kind) (canonical names, upper case, aliases) + HpoTerm::similarity_score and through the "
                "concrete structs (must agree); bit-exact f32 (Flocq binary32), logf / expf supplied as oracle tables on exactly the arguments "
                "that occur; non-trivial = diamond, depth >= 2, >= 2 records",
        "trust": ["Flocq 4.1 binary32 (IEEE-754) as the meaning of Rust f32 arithmetic", "platform logf / expf: oracle tables produced by the harness"],
        "assumptions": ["expf / logf are sampled, not specified: float finiteness is partial (DESIGN.md §2.6)"],
    },
    "C05": {
        "subs": [sub("C05", "run_C05", "spec_C05", ["Run.C05"], 1200, 12000)],
        "run_modules": ["C05"],
        "rule": "(a) SimilarityCombiner::{row_maxes, col_maxes, calculate} for the three StandardCombiners on Matrix::new(r, c, data), r, c in 0..9 "
                "(thorough 0..14: 1 x n, n x 1, square, rectangular, a zero dimension), entries from five families (unit interval with ties, "
                "signed with both zeros, all negative, arbitrary bit patterns, extremes incl. infinities / NaN / subnormals); (b) HpoSet::similarity "
                "and GroupSimilarity with a table-driven user similarity (half of them asymmetric) on query sequences (A,B), (B,A), (A,A) over "
                "sets of size 0..9, plain and through ONE CachedSimilarity per sequence, with the log of the wrapped similarity's calls; results "
                "compared bit for bit (Flocq binary32); non-trivial = rectangular matrix / sets of different sizes >= 2",
        "trust": ["Flocq 4.1 binary32 (IEEE-754) as the meaning of Rust f32 + / max and comparisons", "Sum for f32 starts from -0.0 (std)"],
        "assumptions": ["|data| = rows * cols (Matrix's documented contract)", "the sign of a zero returned by f32::max is unspecified and not compared"],
    },
    "C13": {
        "subs": [sub("C13", "run_C13", "spec_C13", W_IMPORTS + ["Run.C13"], 200, 2000)],
        "run_modules": ["C13"],
        "rule": "ontologies (Builder and binary v1-v3 with obsolete / replaced terms, replacements that resolve, dangle or collide with members) x "
                "8 subsets each (empty, all terms, random thirds, ancestor+descendant pairs, replaced term together with its replacement); "
                "non-trivial = ontology with at least one obsolete or replaced term",
        "trust": [], "assumptions": ["members of a set are terms of the ontology (HpoSet::new's contract)"],
    },
    "C14": {
        "subs": [sub("C14", "run_C14", "spec_C14", W_IMPORTS + ["Run.C14"], 300, 3000)],
        "run_modules": ["C14"],
        "rule": "source ontologies (Builder / binary) x root (a term with >= 2 descendants when possible, or HP:1) x 1-5 leaves (below root, "
                "duplicates, leaf == root, nested leaves, 1 in 12 outside root's subtree), annotations on phenotype terms, modifier descendants "
                "and modifier roots; non-trivial = valid call with >= 2 leaves",
        "trust": [], "assumptions": ["root and leaves are terms of the source ontology", "non-empty leaf collection"],
    },
    "C17": {
        "subs": [sub("C17", "run_C17", "spec_C17", ["Run.C17"], 400, 4000, compare=cmp_c17)],
        "run_modules": ["C17"],
        "rule": "n = 2..9 (thorough ..20) distinct input sets (singletons or 1-3 terms) over a flat ontology; symmetric, tie-free table of "
                "pairwise term distances (uniform, or two tight groups with a gap so that clusters merge with clusters; one third with "
                "distances only a few ulps apart); user distance = min / max / min + (|A|+|B|)/64 over member pairs; the four methods; cluster(), "
                "into_cluster(), indicies() and the arguments of every callback invocation; bit-exact f32; non-trivial = n >= 5",
        "trust": ["Flocq 4.1 binary32 (IEEE-754) as the meaning of Rust f32 + / and comparisons"],
        "assumptions": ["symmetric distance function without ties (the property's quantifier); on a tie reported by the model only the replay (spec_C17) decides"],
    },
    "C18": {
        "subs": [sub("C18", "run_C18", "spec_C18", W_IMPORTS + ["Run.C18"], 300, 3000)],
        "run_modules": ["C18"],
        "rule": "pairs (old, new) of ontologies where new is old after 0-5 edits (term renamed, parent link added — also one that was already "
                "an indirect ancestor — or removed, obsolete flipped, replacement changed to a resolving / dangling / no id, annotation fact "
                "added / removed, record added / removed / renamed, term added / removed), built through the Builder or binary v2/v3; all "
                "Comparison / HpoTermDelta / AnnotationDelta accessors for compare(old,new), compare(new,old), compare(old,old) and "
                "compare(old, from_bytes(as_bytes(old))); vectors compared as sets; non-trivial = exactly one edit",
        "trust": [], "assumptions": ["names within the 255-byte limit of the binary format (for the round-trip comparison)"],
    },
    "C20": {
        "subs": [sub("C20", "run_C20", "spec_C20", ["Run.C20"], 400, 4000)],
        "run_modules": ["C20"],
        "rule": "one case sweeps ALL ids 0..10^7+1 and the u32 borders on the crate (render, parse, bytes); then batches of 20 ids (uniform, "
                "full u32 range, powers of ten +-1) rendered by crate and model, and batches of 20 texts from a grammar mixing ASCII, 2/3/4-byte "
                "characters at every offset, digits, signs, blanks, values around 2^32, lengths 0-40; non-trivial = batch with a multi-byte text, or an id batch",
        "trust": ["core::str / u32::from_str grammar ('+'? digit+, <= u32::MAX) as documented"], "assumptions": ["input texts are valid UTF-8 (&str)"],
    },
    "C15": {
        "subs": [sub("C15", "run_C15", "spec_C15", W_IMPORTS + ["Run.C15"], 500, 5000)],
        "run_modules": ["C15"],
        "rule": "builder call histories over present and absent term ids (absent parent / child / both, annotate_* of an absent term for new and "
                "existing records, ids at and beyond the id-space border), interleaved with succeeding calls; each history is also run "
                "without its failing calls; non-trivial = at least two failing calls",
        "trust": [], "assumptions": ["acyclic is_a graphs"],
    },
    "C16": {
        "subs": [sub("C16", "run_C16", "spec_C16", W_IMPORTS + ["Run.C16"], 250, 2500)],
        "run_modules": ["C16"],
        "rule": "each fact set is supplied to the Builder in three independent random orders (terms, links, annotation calls); "
                "non-trivial = diamond and depth >= 3",
        "trust": [], "assumptions": ["one name per id (the property's side condition)"],
    },
    "C19": {
        "subs": [sub("C19", "run_C19", "spec_C19", W_IMPORTS + ["Run.C19"], 400, 4000)],
        "run_modules": ["C19"],
        "rule": "ontologies with 0-3 modifier branches below HP:1, terms below several categories and below both kinds of branch, "
                "and ontologies missing one or both roots; built with build_with_defaults; non-trivial = both roots and >= 5 terms",
        "trust": [], "assumptions": [],
    },
    "C06": {
        "subs": [dict(sub("C06", "run_C06", "spec_C06", W_IMPORTS + ["Run.C06"], 160, 1600), proj=proj_c06, self_spec=False)],
        "run_modules": ["C06"],
        "rule": "two thirds: flat ontologies (root + N leaves, N in 1..70, around the 170-entry factorial table (160-185) and above it up to 360 "
                "(thorough 900)) with groups of records sharing K and carrying k = kmin, kmin+1, ..., kmax (the boundary n + K > N over-weighted), "
                "sample sizes 1, N, N/2, random, a record of another kind with the same numeric id; one third: general small ontologies "
                "(inheritance along is_a) with random background subsets and samples; the three kinds; record set, ids, counts and fold "
                "enrichment (Flocq binary64) compared exactly, p-value against the exact tail (relative 1e-9), in [0,1], antitone in k; "
                "non-trivial = flat population of >= 10 terms",
        "trust": ["Flocq 4.1 binary64 (IEEE-754) as the meaning of Rust f64 division", "f64 ln_gamma / ln / exp evaluation of the tail: compared with the exact value under tolerance only"],
        "assumptions": ["sample drawn from the background (the property's quantifier)", "p-value tolerance: |p - exact| <= 1e-9 * exact (or both < 1e-280)"],
    },
    "C07": {
        "subs": [sub("C07", "run_C07", "spec_C07", W_IMPORTS + ["Run.C07"], 300, 3000)],
        "run_modules": ["C07"],
        "rule": "ontologies from the Builder and from binary v1/v2/v3 files (obsolete / replaced terms, replacements that resolve or dangle, "
                "records without terms, empty sections, ids up to 9 999 999, names of 250-262 bytes with multi-byte characters straddling "
                "byte 255); as_bytes compared byte for byte (records sorted), reload dumped, compare() consulted; non-trivial = both roots and >= 4 terms",
        "trust": ["String::from_utf8 / is_char_boundary modelled by utf8_valid / is_char_boundary (Model/Binary.v)"],
        "assumptions": ["ontology contains HP:0000001 and HP:0000118 (the property's precondition)", "replacement id 0 is reserved by the format"],
    },
    "C08": {
        "subs": [sub("C08", "run_C08", "spec_C08", ["Run.World", "Run.C08"], 60, 400)],
        "run_modules": ["C08"],
        "rule": "files laid out by the harness's own v1/v2/v3 encoder (random record order, shuffled id lists) from 2-6-term fact sets (thorough 2-9); "
                "for each file: the file itself, EVERY proper prefix, 4 suffixes, 6-12 version bytes, 12 (thorough 24) single-byte mutants "
                "(random value / neighbour value / 0 / copy of another byte; each loaded in a child process: dump, error, panic, or "
                "Fuel = killed after 4 s or died from a signal); non-trivial = file with both roots",
        "trust": ["harness/src/bin.rs encoder as the definition of 'laid out according to the documented format'"],
        "assumptions": ["v1 terms section shorter than 0x48504F00 bytes (else it is indistinguishable from the magic)"],
    },
    "C09": {
        "subs": [sub("C09", "run_C09", "spec_C09", W_IMPORTS + ["Run.C09"], 120, 1500)],
        "run_modules": ["C09"],
        "rule": "fact sets of 2-12 terms (thorough up to 30; obsolete / replaced terms in half of them, names with ': ' and non-ASCII text, "
                "empty names) rendered as hp.obo (stanzas in random order, id/name anywhere in the stanza, extra tags with nested colons, "
                "[Typedef] and [Instance] stanzas interleaved, header with and without data-version, a foreign data-version line first), "
                "genes_to_phenotype.txt and phenotype_to_genes.txt (three header styles, trailing columns, shuffled and repeated rows), "
                "phenotype.hpoa (comment lines anywhere, NOT rows incl. diseases that only have NOT rows, DECIPHER rows, trailing columns); "
                "loaded with from_standard and from_standard_transitive from a scratch directory, and the same facts through the Builder API "
                "(when no flags) and a v3 binary file; non-trivial = both roots and >= 4 terms",
        "trust": ["file system access of the loaders (the model starts from file contents)", "str::lines / split / trim / parse modelled at byte level (Model/Text.v)"],
        "assumptions": ["files rendered in the JAX formats: one blank line between stanzas, every stanza line `tag: value`, `is_a: HP:x ! label`, one header line in the gene files", "no Unicode white space at line ends (trim is modelled for ASCII white space)"],
    },
    "C10": {
        "subs": [dict(sub("C10", "run_C10", "spec_C10", W_IMPORTS + ["Run.C02", "Run.C10"], 150, 1500), proj=proj_c10),
                 sub("C10m", "run_C10m", "spec_C10m", W_IMPORTS + ["Run.C02", "Run.C10"], 1, 4)],
        "run_modules": ["C10"],
        "rule": "per case the crate's Ontology::hpo is swept over EVERY id 0..10^7+1 plus 16 probes up to u32::MAX (ids of the ontology shifted "
                "by 10^7 and by 2^31: table aliasing); ontologies from the Builder and binary files with dense / sparse / border ids "
                "(0, 1, 9 999 999); iteration and len(); gene_by_name / omim_diseases_by_name / omim_disease_by_name for full names, prefixes, "
                "suffixes, infixes (multi-byte), the stored name in another ASCII casing, the empty string and absent names; "
                "non-trivial = ontology with an id above 65 535 and >= 3 terms; "
                "C10m: one ontology (thorough: four) of 65 537-70 536 terms (ids first + i*stride), the same full sweep summarised as "
                "(answered, answered with another id or name, sum / min / max of answered ids, len, iteration count and sum); the model "
                "builds it through the block forms of Model/ManyTerms.v, proved equal to the call-by-call Builder transcription",
        "trust": ["str::contains on valid UTF-8 = byte-level infix (core::str contract)"],
        "assumptions": ["a term whose insertion panics (id >= 10^7) was never added (DESIGN.md §3.2)"],
    },
    "C11": {
        "subs": [dict(sub("C11", "run_C11", "spec_C11", W_IMPORTS + ["Run.C11"], 250, 2500), proj=proj_c11),
                 dict(sub("C11d", "run_C11d", "spec_C11d", W_IMPORTS + ["Run.C11"], 6, 40), proj=proj_c11)],
        "run_modules": ["C11"],
        "rule": "ontologies of 2-11 terms (thorough up to 22) from the Builder and binary files, with redundant shortcut edges (an ancestor that is "
                "also a direct parent), tied diamonds, several roots and disconnected terms; ALL ordered pairs of terms, four queries each; "
                "plus deep ontologies (one chain of 70-100 terms, thorough 130, with side branches) on ~20 selected pairs (deepest term vs root / "
                "intermediate ancestors / random terms); "
                "non-trivial = diamond and depth >= 3",
        "trust": [], "assumptions": ["acyclic is_a graphs"],
    },
    "C12": {
        "subs": [sub("C12", "run_C12", "spec_C12", ["Run.C12"], 3000, 30000),
                 sub("C12t", "run_C12t", "spec_C12t", W_IMPORTS + ["Run.C12t"], 200, 2000)],
        "run_modules": ["C12", "C12t"],
        "rule": "seeded insertion histories / pairs of id lists (sizes 0-70 crossing the inline limit 30, equal, nested, "
                "equal-length, disjoint) / constructor inputs; thorough adds all 65 536 pairs of subsets of an 8-element universe; "
                "non-trivial = history with a repeated id and >= 2 members, or pair with non-empty intersection and strict union; "
                "C12t: ontologies of 2-12 terms (thorough up to 22) from every construction path, ALL ordered pairs of terms (both argument "
                "orders, a term with itself, ancestor/descendant pairs, unrelated pairs), the four *_ancestor_ids queries and the four Combined "
                "iterators against intersection / union of the dumped ancestor sets",
        "trust": ["slice::binary_search contract of std (sorted input => exact position)", "SmallVec storage not modelled"],
        "assumptions": ["groups are only built through the public constructors/operations (wf is preserved by all of them)"],
    },
}
