"""Registry of the per-property checks (read by tools/check.py)."""

# Standard-library axioms that may appear under Print Assumptions (named in DESIGN.md §6).
AXIOM_ALLOW = {
    "ClassicalDedekindReals.sig_not_dec",
    "ClassicalDedekindReals.sig_forall_dec",
    "FunctionalExtensionality.functional_extensionality_dep",
    "Classical_Prop.classic",
}

COMMON_TRUST = [
    "Coq 8.16.1 kernel and vm_compute (no native_compute)",
    "hand-written Gallina model of the Rust functions (tied to the code by the correspondence run only)",
    "Rust harness generators/observers, tools/check.py differ, tools/coqterm.py parser",
    "tools/extract_consts.py (regenerates Gen/Consts.v from the current source)",
]


def sub(name, run, spec, imports, quick, thorough, compare=None):
    return {"name": name, "run": run, "spec": spec, "imports": imports, "count": {"quick": quick, "thorough": thorough}, "compare": compare}


W_IMPORTS = ["Run.World"]

PROPS = {
    "C01": {
        "subs": [sub("C01", "run_C01", "spec_C01", W_IMPORTS + ["Run.C01"], 400, 4000)],
        "run_modules": ["C01"],
        "rule": "seeded acyclic is_a graphs (1-16 terms, thorough up to 60; multi-parent, redundant shortcut edges, several roots, "
                "disconnected terms; ids dense/sparse/borders decorrelated from topology; shuffled insertion and link order); "
                "non-trivial = a term with >= 2 parents and depth >= 3",
        "trust": [],
        "assumptions": ["is_a graphs are acyclic (the property's quantifier; cyclic input makes the library recurse forever)"],
    },
    "C12": {
        "subs": [sub("C12", "run_C12", "spec_C12", ["Run.C12"], 3000, 30000)],
        "run_modules": ["C12"],
        "rule": "seeded insertion histories / pairs of id lists (sizes 0-70 crossing the inline limit 30, equal, nested, "
                "equal-length, disjoint) / constructor inputs; thorough adds all 65 536 pairs of subsets of an 8-element universe; "
                "non-trivial = history with a repeated id and >= 2 members, or pair with non-empty intersection and strict union",
        "trust": ["slice::binary_search contract of std (sorted input => exact position)", "SmallVec storage not modelled"],
        "assumptions": ["groups are only built through the public constructors/operations (wf is preserved by all of them)"],
    },
}
