#!/usr/bin/env python3
"""Regenerates coq/theories/Gen/Consts.v from /repo's *current* source.
A constant whose defining text no longer has the shape the extractor knows (a harmless rewrite can do
that) falls back to the value PINNED below — the value at the pinned commit — and is listed in
build/consts_status.json, which the check copies into its evidence.  The fallback asserts nothing
about the code: the correspondence run decides whether the code still behaves like the model with
that value (every constant is exercised by a generator, see DESIGN.md 9.4)."""
import re, sys, os, json

REPO = os.environ.get("HPO_REPO", "/repo")
ROOT = os.path.dirname(os.path.dirname(os.path.abspath(__file__)))
OUT = os.path.join(ROOT, "coq", "theories", "Gen", "Consts.v")


def src(rel):
    try:
        return open(os.path.join(REPO, rel)).read()
    except OSError:
        return ""


def num(s):
    return int(s.replace("_", ""))


class NotFound(Exception):
    pass


def find(pattern, text, what, flags=0):
    m = re.search(pattern, text, flags)
    if not m:
        raise NotFound(what)
    return m


PINNED = {
    "MAX_HPO_ID": 10000000, "PHENOTYPE_ID": 118, "ROOT_ID": 1, "ROOT_ID_CAT": 1, "EMIT_VERSION": 3, "MIN_LEN": 5,
    "TERM_NAME_LIMIT": 255, "GENE_NAME_LIMIT": 255, "MAX_FACTORIAL": 170, "ID_PREFIX_LEN": 3, "ID_MIN_LEN": 4, "ID_PAD": 7,
    "MAGIC_WRITER": [72, 80, 79], "MAGIC_READER": [72, 80, 79], "ACCEPTED_VERSIONS": [2, 3],
    "OBO_FILENAME": "hp.obo", "GENE_FILENAME": "phenotype_to_genes.txt", "GENE_TO_PHENO_FILENAME": "genes_to_phenotype.txt",
    "DISEASE_FILENAME": "phenotype.hpoa", "OBO_TERM_HEADER": "[Term]", "OBO_VERSION_PREFIX": "data-version: hp/releases/",
    "OBO_HEADER_START": "format-version: 1.2", "OBO_ISA_PREFIX": "is_a: ", "ID_DISPLAY_PREFIX": "HP:",
}
FALLBACK = []


def get(name, thunk):
    """the value read from the source, or the pinned one when the source no longer has the known shape"""
    try:
        return thunk()
    except (NotFound, ValueError, IndexError, OSError) as e:
        FALLBACK.append({"constant": name, "reason": f"pattern not found: {e}"})
        sys.stderr.write(f"extract_consts: {name}: {e}: pinned value used\n")
        return PINNED[name]


def bytes_list(s):
    return "[" + "; ".join(str(b) for b in s.encode()) + "]"


def main():
    lib = src("src/lib.rs")
    ont = src("src/ontology.rs")
    binv = src("src/parser/binary/ontology.rs")
    binm = src("src/parser/binary.rs")
    internal = src("src/term/internal.rs")
    gene = src("src/annotations/gene.rs")
    statrs = src("src/stats/hypergeom/statrs.rs")
    obo = src("src/parser/hp_obo.rs")
    tid = src("src/term/hpotermid.rs")

    d = {}
    d["MAX_HPO_ID"] = get("MAX_HPO_ID", lambda: num(find(r"const MAX_HPO_ID_INTEGER: usize = ([0-9_]+);", lib, "MAX_HPO_ID_INTEGER").group(1)))
    d["PHENOTYPE_ID"] = get("PHENOTYPE_ID", lambda: num(find(r"pub const PHENOTYPE_ID: HpoTermId = HpoTermId::from_u32\(([0-9_]+)\);", lib, "PHENOTYPE_ID").group(1)))
    d["ROOT_ID"] = get("ROOT_ID", lambda: num(find(r"fn set_default_modifier.*?self\s*\.hpo\(([0-9_]+)u32\)", ont, "root id in set_default_modifier", re.S).group(1)))
    d["ROOT_ID_CAT"] = get("ROOT_ID_CAT", lambda: num(find(r"fn set_default_categories.*?let root = self\.hpo\(([0-9_]+)u32\)", ont, "root id in set_default_categories", re.S).group(1)))

    def writer_meta():
        return find(r"fn metadata_as_bytes.*?extend_from_slice\(&\[(0x[0-9a-fA-F]+), (0x[0-9a-fA-F]+), (0x[0-9a-fA-F]+)\]\);.*?bytes\.push\((0x[0-9a-fA-F]+|\d+)\);", ont, "magic bytes / emitted version", re.S)
    magic_w = get("MAGIC_WRITER", lambda: [int(writer_meta().group(i), 16) for i in (1, 2, 3)])
    d["EMIT_VERSION"] = get("EMIT_VERSION", lambda: int(writer_meta().group(4), 0))
    magic_r = get("MAGIC_READER", lambda: [int(find(r"bytes\[0\.\.3\] == \[(0x[0-9a-fA-F]+), (0x[0-9a-fA-F]+), (0x[0-9a-fA-F]+)\]", binv, "magic bytes in reader").group(i), 16) for i in (1, 2, 3)])

    def accepted_versions():
        acc = [int(x) for x in re.findall(r"(\d+)u8 => Ok\(Bytes::new\(&bytes\[4\.\.\]", binv)]
        if not acc:
            raise NotFound("accepted versions")
        return acc
    accepted = get("ACCEPTED_VERSIONS", accepted_versions)
    d["MIN_LEN"] = get("MIN_LEN", lambda: num(find(r"if bytes\.len\(\) < (\d+) \{\s*return Err\(HpoError::ParseBinaryError\)", binv, "minimal length").group(1)))
    d["TERM_NAME_LIMIT"] = get("TERM_NAME_LIMIT", lambda: num(find(r"fn as_bytes.*?std::cmp::min\(name\.len\(\), (\d+)\)", internal, "term name limit", re.S).group(1)))
    d["GENE_NAME_LIMIT"] = get("GENE_NAME_LIMIT", lambda: num(find(r"fn as_bytes.*?std::cmp::min\(name\.len\(\), (\d+)\)", gene, "gene name limit", re.S).group(1)))
    d["MAX_FACTORIAL"] = get("MAX_FACTORIAL", lambda: num(find(r"pub const MAX_FACTORIAL: usize = (\d+);", statrs, "MAX_FACTORIAL").group(1)))
    d["ID_PREFIX_LEN"] = get("ID_PREFIX_LEN", lambda: num(next(g for g in find(r"fn try_from\(s: &str\).*?s\.get\((\d+)\.\.\)|fn try_from\(s: &str\).*?s\[(\d+)\.\.\]", tid, "prefix length", re.S).groups() if g)))
    d["ID_MIN_LEN"] = get("ID_MIN_LEN", lambda: num(find(r"fn try_from\(s: &str\).*?if s\.len\(\) < (\d+)", tid, "min id length", re.S).group(1)))
    d["ID_PAD"] = get("ID_PAD", lambda: num(find(r'write!\(f, "HP:\{:0(\d+)\}"', tid, "display padding").group(1)))
    strs = {
        "OBO_FILENAME": get("OBO_FILENAME", lambda: find(r'const OBO_FILENAME: &str = "([^"]+)";', lib, "OBO_FILENAME").group(1)),
        "GENE_FILENAME": get("GENE_FILENAME", lambda: find(r'const GENE_FILENAME: &str = "([^"]+)";', lib, "GENE_FILENAME").group(1)),
        "GENE_TO_PHENO_FILENAME": get("GENE_TO_PHENO_FILENAME", lambda: find(r'const GENE_TO_PHENO_FILENAME: &str = "([^"]+)";', lib, "GENE_TO_PHENO_FILENAME").group(1)),
        "DISEASE_FILENAME": get("DISEASE_FILENAME", lambda: find(r'const DISEASE_FILENAME: &str = "([^"]+)";', lib, "DISEASE_FILENAME").group(1)),
        "OBO_TERM_HEADER": get("OBO_TERM_HEADER", lambda: find(r'strip_prefix\("(\[Term\])\\n"\)', obo, "[Term] header").group(1)),
        "OBO_VERSION_PREFIX": get("OBO_VERSION_PREFIX", lambda: find(r'strip_prefix\("(data-version: hp/releases/)"\)', obo, "data-version prefix").group(1)),
        "OBO_HEADER_START": get("OBO_HEADER_START", lambda: find(r'starts_with\("(format-version: 1\.2)"\)', obo, "format-version").group(1)),
        "OBO_ISA_PREFIX": get("OBO_ISA_PREFIX", lambda: find(r'strip_prefix\("(is_a: )"\)', obo, "is_a prefix").group(1)),
        "ID_DISPLAY_PREFIX": get("ID_DISPLAY_PREFIX", lambda: find(r'write!\(f, "(HP:)\{', tid, "display prefix").group(1)),
    }
    lines = [
        "(* GENERATED by tools/extract_consts.py from /repo's current source on every run. Do not edit. *)",
        "From Coq Require Import List NArith.",
        "Import ListNotations.",
        "Open Scope N_scope.",
        "",
    ]
    for k, v in d.items():
        lines.append(f"Definition {k} : N := {v}.")
    lines.append(f"Definition MAGIC_WRITER : list N := [{'; '.join(map(str, magic_w))}].")
    lines.append(f"Definition MAGIC_READER : list N := [{'; '.join(map(str, magic_r))}].")
    lines.append(f"Definition ACCEPTED_VERSIONS : list N := [{'; '.join(map(str, sorted(accepted)))}].")
    for k, v in strs.items():
        lines.append(f"Definition {k} : list N := {bytes_list(v)}.")
    text = "\n".join(lines) + "\n"
    os.makedirs(os.path.dirname(OUT), exist_ok=True)
    if not os.path.exists(OUT) or open(OUT).read() != text:
        open(OUT, "w").write(text)
    status = {"from_source": [k for k in PINNED if k not in {f["constant"] for f in FALLBACK}], "pinned_fallback": FALLBACK}
    os.makedirs(os.path.join(ROOT, "build"), exist_ok=True)
    json.dump(status, open(os.path.join(ROOT, "build", "consts_status.json"), "w"), indent=1)


if __name__ == "__main__":
    main()
