"""Parser for the fragment of Gallina term syntax exchanged between the harness and Coq:
numbers, identifiers / constructor applications, `[a; b]`, `(a, b)`, strings are not used.
Returns python ints, lists, tuples, and ('Ctor', args...) tuples tagged by a leading str."""
import re

_tok = re.compile(r"\s*(?:(\d+)|([A-Za-z_][A-Za-z_0-9'.]*)|(.))")


class ParseError(Exception):
    pass


def tokenize(s):
    out = []
    pos = 0
    n = len(s)
    while pos < n:
        m = _tok.match(s, pos)
        if not m:
            break
        pos = m.end()
        if m.group(1) is not None:
            out.append(("n", int(m.group(1))))
        elif m.group(2) is not None:
            out.append(("i", m.group(2)))
        elif m.group(3) is not None and not m.group(3).isspace():
            out.append(("p", m.group(3)))
    return out


def parse(s):
    # strip scope annotations like %N %Z %list
    s = re.sub(r"%[A-Za-z_]+", "", s)
    toks = tokenize(s)
    pos = [0]

    def peek():
        return toks[pos[0]] if pos[0] < len(toks) else ("e", None)

    def eat(kind=None, val=None):
        t = peek()
        if (kind and t[0] != kind) or (val is not None and t[1] != val):
            raise ParseError(f"expected {kind} {val}, got {t} at {pos[0]}")
        pos[0] += 1
        return t

    def atom():
        t = peek()
        if t[0] == "n":
            eat()
            return t[1]
        if t[0] == "i":
            eat()
            if t[1] == "true":
                return True
            if t[1] == "false":
                return False
            return (t[1],)
        if t == ("p", "["):
            eat()
            items = []
            if peek() != ("p", "]"):
                items.append(term())
                while peek() == ("p", ";"):
                    eat()
                    items.append(term())
            eat("p", "]")
            return items
        if t == ("p", "("):
            eat()
            items = [term()]
            while peek() == ("p", ","):
                eat()
                items.append(term())
            eat("p", ")")
            if len(items) == 1:
                return items[0]
            return ("", *items)  # tuple: tagged with empty name
        raise ParseError(f"unexpected token {t} at {pos[0]}")

    def is_atom_start():
        t = peek()
        return t[0] in ("n", "i") or t in (("p", "["), ("p", "("))

    def term():
        head = atom()
        if isinstance(head, tuple) and len(head) == 1 and head[0] != "" and is_atom_start():
            args = []
            while is_atom_start():
                args.append(atom())
            return (head[0], *args)
        return head

    r = term()
    if pos[0] != len(toks):
        raise ParseError(f"trailing tokens at {pos[0]}: {toks[pos[0]:pos[0]+5]}")
    return r


def norm(x):
    """normalise: bool -> int, 1-tuples of ctor stay, nested left pairs flattened by Coq printing already"""
    if isinstance(x, bool):
        return int(x)
    if isinstance(x, list):
        return [norm(y) for y in x]
    if isinstance(x, tuple):
        t = tuple(norm(y) if not isinstance(y, str) else y for y in x)
        # Coq prints left-nested pairs flat: ((a, b), c) = (a, b, c)
        while len(t) >= 2 and t[0] == "" and isinstance(t[1], tuple) and len(t[1]) >= 1 and t[1][0] == "":
            t = ("",) + t[1][1:] + t[2:]
        return t
    return x


def first_diff(a, b, path="obs"):
    """path of the first structural difference between two parsed values, or None"""
    if type(a) != type(b):
        return f"{path}: {short(a)} vs {short(b)}"
    if isinstance(a, (list, tuple)):
        if len(a) != len(b):
            # find first differing element if any, else report length
            for i, (x, y) in enumerate(zip(a, b)):
                d = first_diff(x, y, f"{path}[{i}]")
                if d:
                    return d
            return f"{path}: length {len(a)} vs {len(b)}"
        for i, (x, y) in enumerate(zip(a, b)):
            d = first_diff(x, y, f"{path}[{i}]")
            if d:
                return d
        return None
    if a != b:
        return f"{path}: {short(a)} vs {short(b)}"
    return None


def short(x, n=160):
    s = repr(x)
    return s if len(s) <= n else s[:n] + "..."
