#!/bin/sh
# tools/seedtest.sh <patch.diff> <property>...   — applies a seeded change to /repo, runs the checks, undoes it
patch="$1"; shift
cd /repo || exit 2
if [ -n "$(git status --porcelain --untracked-files=no)" ]; then echo "/repo not clean"; exit 2; fi
git apply "$patch" || { echo "patch does not apply"; exit 2; }
for p in "$@"; do
  (cd /verif && ./check "$p" --tier "${TIER:-quick}" 2>&1 | tail -2)
done
git -C /repo checkout -- .
git -C /repo status --porcelain --untracked-files=no
