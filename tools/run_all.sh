#!/bin/sh
# tools/run_all.sh [tier] — runs every registered check once (seed from VERIF_SEED, default 1) and prints the verdict lines;
# used to refresh evidence/ on the unchanged tree before a commit
cd "$(dirname "$0")/.." || exit 2
tier="${1:-quick}"
for p in C01 C02 C03 C04 C05 C06 C07 C08 C09 C10 C11 C12 C13 C14 C15 C16 C17 C18 C19 C20; do
  ./check "$p" --tier "$tier" 2>&1 | grep -E "^VIOLATION|^KNOWN-FINDING|tier=" 
done
