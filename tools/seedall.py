#!/usr/bin/env python3
"""tools/seedall.py [ids...] — applies every seeded change under /verif/seeded to /repo (one at a time, undone
straight afterwards), runs the quick check of the property it targets and records the outcome in
seeded/<id>/meta.json (which property, what it needs, what was run, which check caught it)."""
import json, os, subprocess, sys, re, time
ROOT = os.path.dirname(os.path.dirname(os.path.abspath(__file__)))
SEEDED = os.path.join(ROOT, "seeded")

def sh(cmd, cwd=None):
    p = subprocess.run(cmd, shell=True, cwd=cwd, stdout=subprocess.PIPE, stderr=subprocess.STDOUT, text=True)
    return p.returncode, p.stdout

def main():
    ids = sys.argv[1:] or sorted(os.listdir(SEEDED))
    rc, out = sh("git status --porcelain --untracked-files=no", cwd="/repo")
    if out.strip():
        print("/repo not clean"); return 2
    summary = []
    for sid in ids:
        d = os.path.join(SEEDED, sid)
        patch = os.path.join(d, "patch.diff")
        if not os.path.exists(patch):
            continue
        prop = sid.split("-")[0]
        extra = []
        mp = os.path.join(d, "meta.json")
        old = json.load(open(mp)) if os.path.exists(mp) else {}
        extra = old.get("also_run", [])
        agent = json.load(open(os.path.join(d, "agent_meta.json"))) if os.path.exists(os.path.join(d, "agent_meta.json")) else {}
        confirm = json.load(open(os.path.join(d, "confirm.json"))) if os.path.exists(os.path.join(d, "confirm.json")) else {}
        rc, out = sh(f"git apply {patch}", cwd="/repo")
        if rc != 0:
            print(sid, "patch does not apply:", out[-300:]); continue
        results = {}
        # the evidence files describe the UNCHANGED tree: keep them out of the seeded runs
        saved = {}
        for p in [prop] + extra:
            ev = os.path.join(ROOT, "evidence", p + ".json")
            saved[ev] = open(ev).read() if os.path.exists(ev) else None
        try:
            for p in [prop] + extra:
                t0 = time.time()
                rc, out = sh(f"./check {p} --tier quick", cwd=ROOT)
                viol = [l for l in out.split("\n") if l.startswith("VIOLATION")]
                last = [l for l in out.split("\n") if l.startswith(f"[{p}] tier=")]
                results[p] = {"exit": rc, "violation_line": viol[0] if viol else None, "summary": last[-1] if last else None,
                              "wall_s": round(time.time() - t0, 1)}
        finally:
            sh("git checkout -- .", cwd="/repo")
            for ev, content in saved.items():
                if content is None:
                    if os.path.exists(ev):
                        os.remove(ev)
                else:
                    open(ev, "w").write(content)
        caught = [p for p, r in results.items() if r["exit"] == 1 and r["violation_line"]]
        meta = {
            "id": sid,
            "property": prop,
            "breaks": agent.get("summary") or agent.get("what_it_breaks"),
            "needs_to_manifest": agent.get("needs") or agent.get("needs_to_manifest"),
            "why_existing_tests_pass": agent.get("why_tests_pass"),
            "confirmed": confirm,
            "what_was_run": "tools/confirm_seed.sh in a scratch worktree (demo passes on the clean tree, cargo test passes with the patch, demo fails with the patch); "
                            "then tools/seedall.py: git -C /repo apply patch.diff; ./check <property> --tier quick; git -C /repo checkout -- .",
            "also_run": extra,
            "checks": results,
            "caught_by": caught,
        }
        json.dump(meta, open(mp, "w"), indent=1)
        summary.append((sid, caught, {p: (r["summary"] or "")[-60:] for p, r in results.items()}))
        print(sid, "CAUGHT by " + ",".join(caught) if caught else "MISSED", flush=True)
    return 0

if __name__ == "__main__":
    sys.exit(main())
