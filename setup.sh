#!/bin/sh
# Offline build of the framework: constants from /repo, full Coq build (.vo, never -vos), harness.
set -e
cd "$(dirname "$0")"
export CARGO_NET_OFFLINE=true
python3 tools/extract_consts.py
cd coq
coq_makefile -f _CoqProject -o Makefile
timeout 3400 make -j16
cd ../harness
RUSTFLAGS="--cfg hpo_verif -Awarnings" cargo build --release --offline -q
echo "setup ok"
